/-
Helper lemmas for the dictionary theorems of Props/C12B.lean (`dict_idx_honoured`, `dict_order_of_appearance`,
`dict_insert_keeps_earlier`): `dictInsert` (noodles' `string_maps::insert`) puts an id where its `IDX` says, appends one
without `IDX`, and never moves an entry that is already in place. Core Lean only.
-/
import SfsModel.Model.Vcf
namespace Sfs

/-- the dictionary padded with gaps so that position `i` exists -/
def dictPad (d : List (Option String)) (i : Nat) : List (Option String) :=
  if i < d.length then d else d ++ List.replicate (i + 1 - d.length) none

theorem dictPad_length_gt (d : List (Option String)) (i : Nat) : i < (dictPad d i).length := by
  unfold dictPad
  split
  · assumption
  · simp only [List.length_append, List.length_replicate]; omega

/-- padding keeps every entry in place -/
theorem dictPad_getElem? (d : List (Option String)) (i j : Nat) (x : Option String) (h : d[j]? = some x) :
    (dictPad d i)[j]? = some x := by
  unfold dictPad
  split
  · exact h
  · have hj : j < d.length := by
      apply Classical.byContradiction
      intro hn
      rw [List.getElem?_eq_none (by omega)] at h
      exact absurd h (by simp)
    rw [List.getElem?_append_left hj]
    exact h

/-- `dictInsert` with an `IDX`, spelled with `dictPad` -/
theorem dictInsert_some_eq (d : List (Option String)) (id : String) (i : Nat) :
    dictInsert d id (some i) =
      match d.idxOf? (some id) with
      | some j => if i = j then some d else none
      | none =>
        match (dictPad d i)[i]? with
        | some (some _) => none
        | _ => some ((dictPad d i).set i (some id)) := rfl

theorem dictInsert_idx (d d' : List (Option String)) (id : String) (i : Nat)
    (h : dictInsert d id (some i) = some d') : d'[i]? = some (some id) := by
  rw [dictInsert_some_eq] at h
  split at h
  · rename_i j hj
    split at h
    · rename_i hij
      subst hij
      obtain ⟨hlt, he, _⟩ := List.idxOf?_eq_some_iff.1 hj
      have hd : d' = d := (Option.some.inj h).symm
      rw [hd, List.getElem?_eq_getElem hlt, he]
    · exact absurd h (by simp)
  · split at h
    · exact absurd h (by simp)
    · have hd : d' = (dictPad d i).set i (some id) := (Option.some.inj h).symm
      rw [hd, List.getElem?_set_self (dictPad_length_gt d i)]

theorem dictInsert_none (d : List (Option String)) (id : String) :
    dictInsert d id none = some (if d.contains (some id) then d else d ++ [some id]) := by
  show (if d.contains (some id) then some d else some (d ++ [some id])) = _
  split <;> rfl

theorem getElem?_lt_of_some {α : Type} (l : List α) (j : Nat) (x : α) (h : l[j]? = some x) : j < l.length := by
  apply Classical.byContradiction
  intro hn
  rw [List.getElem?_eq_none (by omega)] at h
  exact absurd h (by simp)

theorem dictInsert_keeps (d d' : List (Option String)) (id : String) (idx : Option Nat) (j : Nat) (x : String)
    (h : dictInsert d id idx = some d') (hj : d[j]? = some (some x)) : d'[j]? = some (some x) := by
  cases idx with
  | none =>
    rw [dictInsert_none] at h
    have hd : d' = (if d.contains (some id) then d else d ++ [some id]) := (Option.some.inj h).symm
    rw [hd]
    split
    · exact hj
    · rw [List.getElem?_append_left (getElem?_lt_of_some d j _ hj)]
      exact hj
  | some i =>
    rw [dictInsert_some_eq] at h
    split at h
    · split at h
      · have hd : d' = d := (Option.some.inj h).symm
        rw [hd]; exact hj
      · exact absurd h (by simp)
    · have hp := dictPad_getElem? d i j (some x) hj
      split at h
      · exact absurd h (by simp)
      · rename_i hno
        have hd : d' = (dictPad d i).set i (some id) := (Option.some.inj h).symm
        have hij : i ≠ j := by
          intro e
          subst e
          exact hno x hp
        rw [hd, List.getElem?_set_ne hij]
        exact hp

end Sfs
