/-
Helper lemmas for Props/C01V.lean: the first value of a `:`-separated sample field, phasing separators in `splitGT`, and the
only place where `parseVcfRecord` looks at the INFO column.
-/
import SfsModel.Model.Vcf
import SfsModel.Model.Container
import SfsModel.Lemmas.VcfHeader
namespace Sfs

/-! ## the first value of a sample field -/

/-- the first field of a split is what precedes the first separator -/
theorem splitBytes_head (c : Nat) (l : List Nat) : (splitBytes c l)[0]? = some (l.takeWhile (· ≠ c)) := by
  induction l with
  | nil => rfl
  | cons x xs ih =>
    unfold splitBytes
    split
    · rename_i h0; exact absurd h0 (splitBytes_ne_nil c xs)
    · rename_i cur rest h0
      rw [h0] at ih
      simp only [List.getElem?_cons_zero, Option.some.injEq] at ih
      by_cases hx : x = c
      · simp [hx]
      · simp [hx, ih]

theorem splitBytes_head_append_sep (c : Nat) (x rest : List Nat) (h : c ∉ x) :
    (splitBytes c (x ++ c :: rest))[0]? = some x := by
  rw [splitBytes_append_sep c x rest h]; rfl

theorem splitBytes_head_single (c : Nat) (x : List Nat) (h : c ∉ x) : (splitBytes c x)[0]? = some x := by
  rw [splitBytes_single c x h]; rfl

/-- `sampleGt` with GT as the first key, on a field that is not the lone `.`: only the first value matters -/
theorem sampleGt_zero_of_head (field v : List Nat) (hne : field ≠ [46]) (hv : (splitBytes 58 field)[0]? = some v) :
    sampleGt (some 0) field = (parseGT (v.map Char.ofNat)).map classifyField := by
  unfold sampleGt
  simp only [if_neg hne, hv]
  cases parseGT (v.map Char.ofNat) <;> rfl

/-- a GT value `.` is the missing genotype, like the field `.` -/
theorem sampleGt_dot_value (field : List Nat) (hv : (splitBytes 58 field)[0]? = some [46]) :
    sampleGt (some 0) field = some (.skipped .missing) := by
  by_cases hne : field = [46]
  · subst hne; decide
  · rw [sampleGt_zero_of_head field [46] hne hv]; decide

/-- further values after the first one change nothing -/
theorem sampleGt_append_values (gt : List Nat) (h58 : 58 ∉ gt) (extra : List (List Nat)) :
    sampleGt (some 0) (gt ++ extra.flatMap (fun v => 58 :: v)) = sampleGt (some 0) gt := by
  cases extra with
  | nil => simp
  | cons e es =>
    have e1 : gt ++ (e :: es).flatMap (fun v => 58 :: v) = gt ++ 58 :: (e ++ es.flatMap (fun v => 58 :: v)) := by
      simp [List.flatMap_cons]
    rw [e1]
    have hv := splitBytes_head_append_sep 58 gt (e ++ es.flatMap (fun v => 58 :: v)) h58
    by_cases hg : gt = [46]
    · subst hg
      rw [sampleGt_dot_value _ hv]; decide
    · have hne : gt ++ 58 :: (e ++ es.flatMap (fun v => 58 :: v)) ≠ [46] := by
        intro h
        cases gt with
        | nil => simp at h
        | cons a t =>
          simp only [List.cons_append, List.cons.injEq] at h
          have := h.2
          simp at this
      rw [sampleGt_zero_of_head _ gt hne hv, sampleGt_zero_of_head gt gt hg (splitBytes_head_single 58 gt h58)]

/-! ## phasing separators -/

theorem splitGT_ne_nil (l : List Char) : splitGT l ≠ [] := by
  induction l with
  | nil => simp [splitGT]
  | cons x xs ih =>
    unfold splitGT
    split
    · simp
    · split <;> simp

/-- `splitGT` does not tell `/` from `|` -/
theorem splitGT_sep (a b : List Char) : splitGT (a ++ '/' :: b) = splitGT (a ++ '|' :: b) := by
  induction a with
  | nil =>
    obtain ⟨c, t, ht⟩ := List.exists_cons_of_ne_nil (splitGT_ne_nil b)
    simp [splitGT, ht]
  | cons x a ih => simp only [List.cons_append, splitGT, ih]

theorem parseGT_sep (a b : List Char) : parseGT (a ++ '/' :: b) = parseGT (a ++ '|' :: b) := by
  have h1 : a ++ '/' :: b ≠ ['.'] := by
    cases a with
    | nil => simp
    | cons x a => cases a <;> simp
  have h2 : a ++ '|' :: b ≠ ['.'] := by
    cases a with
    | nil => simp
    | cons x a => cases a <;> simp
  unfold parseGT
  rw [if_neg h1, if_neg h2]
  cases a with
  | nil => simp [stripLeadSep]
  | cons x a =>
    simp only [List.cons_append, stripLeadSep]
    split
    · rw [splitGT_sep]
    · rw [← List.cons_append, ← List.cons_append, splitGT_sep]

/-- the part of a field before the first `:`: either the two spellings agree on it, or it holds the separator in question -/
theorem takeWhile_sep (p : Nat → Bool) (x y : Nat) (hx : p x = true) (hy : p y = true) (a b : List Nat) :
    (a ++ x :: b).takeWhile p = (a ++ y :: b).takeWhile p ∨
      ∃ a' b', (a ++ x :: b).takeWhile p = a' ++ x :: b' ∧ (a ++ y :: b).takeWhile p = a' ++ y :: b' := by
  induction a with
  | nil => exact .inr ⟨[], b.takeWhile p, by simp [hx], by simp [hy]⟩
  | cons h t ih =>
    cases hp : p h with
    | false => exact .inl (by simp [hp])
    | true =>
      rcases ih with ih | ⟨a', b', e1, e2⟩
      · exact .inl (by simp [hp, ih])
      · exact .inr ⟨h :: a', b', by simp [hp, e1], by simp [hp, e2]⟩

theorem sampleGt_sep (a b : List Nat) : sampleGt (some 0) (a ++ 47 :: b) = sampleGt (some 0) (a ++ 124 :: b) := by
  have h1 : a ++ 47 :: b ≠ [46] := by
    cases a with
    | nil => simp
    | cons x a => cases a <;> simp
  have h2 : a ++ 124 :: b ≠ [46] := by
    cases a with
    | nil => simp
    | cons x a => cases a <;> simp
  rw [sampleGt_zero_of_head _ _ h1 (splitBytes_head 58 _), sampleGt_zero_of_head _ _ h2 (splitBytes_head 58 _)]
  rcases takeWhile_sep (fun b => decide (b ≠ 58)) 47 124 (by decide) (by decide) a b with e | ⟨a', b', e1, e2⟩
  · rw [e]
  · rw [e1, e2]
    have c1 : Char.ofNat 47 = '/' := rfl
    have c2 : Char.ofNat 124 = '|' := rfl
    simp only [List.map_append, List.map_cons, c1, c2, parseGT_sep]

/-! ## the INFO column -/

/-- the one test `parseVcfRecord` makes on the INFO column -/
def infoRefused (info : List Nat) : Prop :=
  info.isEmpty ∨ (info ≠ [46] ∧ hasDupEntry ((splitBytes 59 info).map (fun f => f.takeWhile (· ≠ 61))))

theorem infoRefused_false (info : List Nat) (hne : info ≠ [])
    (h : info = [46] ∨ hasDupEntry ((splitBytes 59 info).map (fun f => f.takeWhile (· ≠ 61))) = false) :
    ¬ infoRefused info := by
  rintro (h0 | ⟨h1, h2⟩)
  · exact hne (List.isEmpty_iff.1 h0)
  · rcases h with h | h
    · exact h1 h
    · rw [h] at h2; exact absurd h2 (by decide)

/-- two accepted INFO columns give the same record -/
theorem parseVcfRecord_info (n prev : Nat) (chrom pos id ref alt qual filter info info' format : List Nat)
    (samples : List (List Nat))
    (hf : ∀ f ∈ [chrom, pos, id, ref, alt, qual, filter, info, info', format] ++ samples, 9 ∉ f)
    (h : ¬ infoRefused info) (h' : ¬ infoRefused info') :
    parseVcfRecord n prev (joinTab ([chrom, pos, id, ref, alt, qual, filter, info, format] ++ samples)) =
      parseVcfRecord n prev (joinTab ([chrom, pos, id, ref, alt, qual, filter, info', format] ++ samples)) := by
  have s1 := splitBytes_joinTab ([chrom, pos, id, ref, alt, qual, filter, info, format] ++ samples) (by simp)
    (fun l hl => hf l (by simp only [List.cons_append, List.nil_append, List.mem_cons] at hl ⊢; grind))
  have s2 := splitBytes_joinTab ([chrom, pos, id, ref, alt, qual, filter, info', format] ++ samples) (by simp)
    (fun l hl => hf l (by simp only [List.cons_append, List.nil_append, List.mem_cons] at hl ⊢; grind))
  unfold infoRefused at h h'
  unfold parseVcfRecord
  rw [s1, s2]
  simp only [List.cons_append, List.nil_append, if_neg h, if_neg h']

end Sfs
