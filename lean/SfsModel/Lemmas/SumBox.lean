/-
Flat row-major sums vs nested box sums (`sumBox`), reflection. Uses Mathlib big operators.
-/
import SfsModel.Model.Index
import SfsModel.Lemmas.Index
import Mathlib.Algebra.BigOperators.Group.Finset.Basic
import Mathlib.Algebra.BigOperators.Intervals
namespace Sfs
open Finset

/-- nested sum over the index box of a shape -/
def sumBox {α} [AddCommMonoid α] : (s : List Nat) → (List Nat → α) → α
  | [], F => F []
  | v :: s, F => ∑ i ∈ range v, sumBox s (fun idx => F (i :: idx))

theorem sum_range_mul {α} [AddCommMonoid α] (g : Nat → α) (v S : Nat) :
    ∑ t ∈ range (v * S), g t = ∑ i ∈ range v, ∑ t ∈ range S, g (i * S + t) := by
  induction v with
  | zero => simp
  | succ v ih =>
    rw [Nat.succ_mul, Finset.sum_range_add, ih, Finset.sum_range_succ]

/-- A flat row-major sum is the nested sum over the index box. -/
theorem sum_unflat {α} [AddCommMonoid α] : ∀ (s : List Nat) (F : List Nat → α),
    ∑ t ∈ range (size s), F (unflat s t) = sumBox s F
  | [], F => by simp only [size, unflat, sumBox, Finset.sum_range_one]
  | v :: s, F => by
    simp only [size, sumBox]
    rw [sum_range_mul]
    apply Finset.sum_congr rfl
    intro i _
    rw [← sum_unflat s (fun idx => F (i :: idx))]
    apply Finset.sum_congr rfl
    intro t ht
    have hS : t < size s := Finset.mem_range.mp ht
    have hpos : 0 < size s := by omega
    simp only [unflat]
    have h1 : (i * size s + t) / size s = i := by
      rw [Nat.mul_comm, Nat.mul_add_div hpos, Nat.div_eq_of_lt hS]; simp
    have h2 : (i * size s + t) % size s = t := by
      rw [Nat.mul_comm, Nat.mul_add_mod]; exact Nat.mod_eq_of_lt hS
    rw [h1, h2]

/-- reflection: the flat mirror trick used by folding -/
theorem sum_reflect {α} [AddCommMonoid α] (g : Nat → α) (n : Nat) :
    ∑ i ∈ range n, g (n - 1 - i) = ∑ i ∈ range n, g i :=
  Finset.sum_range_reflect g n

theorem list_range_sum {α} [AddCommMonoid α] (f : Nat → α) (n : Nat) :
    ((List.range n).map f).sum = ∑ i ∈ Finset.range n, f i := by
  induction n with
  | zero => simp
  | succ n ih => rw [List.range_succ, List.map_append, List.sum_append, ih, Finset.sum_range_succ]; simp

/-- One step of the `zip`-accumulate used by `Array::sum`: equal lengths, so nothing is left over. -/
theorem zipWith_add_range {α} [Add α] (M : Nat) (g h : Nat → α) :
    List.zipWith (· + ·) ((List.range M).map g) ((List.range M).map h)
        ++ ((List.range M).map g).drop ((List.range M).map h).length
      = (List.range M).map (fun t => g t + h t) := by
  have hd : ((List.range M).map g).drop ((List.range M).map h).length = [] := by
    apply List.drop_of_length_le; simp
  rw [hd, List.append_nil]
  apply List.ext_getElem
  · simp
  · intro t h1 h2
    simp

/-- Folding `n` rows `f 0, …, f (n-1)` (each a list of length `M`) into zeros with `zipWith (+)`
    gives the column sums. -/
theorem foldl_zipWith_range {α} [AddCommMonoid α] (M n : Nat) (f : Nat → Nat → α) :
    (List.range n).foldl
        (fun acc i => List.zipWith (· + ·) acc ((List.range M).map (f i))
          ++ acc.drop ((List.range M).map (f i)).length)
        (List.replicate M (0 : α))
      = (List.range M).map (fun t => ∑ i ∈ Finset.range n, f i t) := by
  induction n with
  | zero =>
    apply List.ext_getElem
    · simp
    · intro t h1 h2; simp
  | succ n ih =>
    rw [List.range_succ, List.foldl_append, ih]
    simp only [List.foldl_cons, List.foldl_nil]
    rw [zipWith_add_range]
    apply List.map_congr_left
    intro t _
    rw [Finset.sum_range_succ]

end Sfs
