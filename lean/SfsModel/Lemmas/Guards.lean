/-
Helper lemmas for C17 (guards).
-/
import SfsModel.Model.Stat
import SfsModel.Model.Npy
import SfsModel.Model.Create
import SfsModel.Lemmas.Bytes
import SfsModel.Lemmas.Index
import SfsModel.Lemmas.Samples
namespace Sfs

/-! ## products over contiguous ranges of axes -/

theorem gd_size_take_le_nzSize (s : List Nat) (j : Nat) : size (s.take j) ≤ nzSize s := by
  induction s generalizing j with
  | nil => simp [nzSize, size]
  | cons v s ih =>
    cases j with
    | zero => exact nzSize_pos (v :: s)
    | succ j =>
      rw [List.take_succ_cons, size, nzSize_cons]
      exact Nat.mul_le_mul (by omega) (ih j)

theorem gd_nzSize_drop_le (s : List Nat) (i : Nat) : nzSize (s.drop i) ≤ nzSize s := by
  induction s generalizing i with
  | nil => simp
  | cons v s ih =>
    cases i with
    | zero => simp
    | succ i =>
      rw [List.drop_succ_cons, nzSize_cons]
      exact Nat.le_trans (ih i) (Nat.le_mul_of_pos_left _ (by omega))

theorem gd_size_range_le_nzSize (s : List Nat) (i j : Nat) : size ((s.drop i).take j) ≤ nzSize s :=
  Nat.le_trans (gd_size_take_le_nzSize (s.drop i) j) (gd_nzSize_drop_le s i)

theorem gd_nzSize_lt (s : List Nat) (n : Nat) (h : checkedSize s = some n) : nzSize s < 2 ^ 64 := by
  rw [checkedSize_eq] at h
  split at h
  · assumption
  · cases h

theorem gd_products_fit (s : List Nat) (n : Nat) (h : checkedSize s = some n) (i j : Nat) :
    size ((s.drop i).take j) < 2 ^ 64 :=
  Nat.lt_of_le_of_lt (gd_size_range_le_nzSize s i j) (gd_nzSize_lt s n h)

theorem gd_mem_strides (s : List Nat) : ∀ v ∈ strides s, ∃ i, v = size ((s.drop i).take s.length) := by
  induction s with
  | nil => simp [strides]
  | cons w s ih =>
    intro v hv
    simp only [strides, List.mem_cons] at hv
    rcases hv with rfl | hv
    · refine ⟨1, ?_⟩
      simp [List.take_of_length_le]
    · obtain ⟨i, hi⟩ := ih v hv
      refine ⟨i + 1, ?_⟩
      rw [hi, List.drop_succ_cons, List.take_of_length_le (by simp), List.take_of_length_le (by simp; omega)]

theorem gd_strides_fit (s : List Nat) (n : Nat) (h : checkedSize s = some n) : ∀ v ∈ strides s, v < 2 ^ 64 := by
  intro v hv
  obtain ⟨i, rfl⟩ := gd_mem_strides s v hv
  exact gd_products_fit s n h i _

/-! ## pixy cells -/

theorem gd_pixy_cells (x y len : Nat) (hlen : len = x * y) (m : Nat × Nat)
    (hm : m ∈ (((List.range (x - 1 + 1)).flatMap
      (fun m1 => (List.range (y - 1 + 1)).map (fun m2 => (m1, m2)))).take (len - 1)).drop 1) :
    m.1 ≤ x - 1 ∧ m.2 ≤ y - 1 ∧ m.1 < x ∧ m.2 < y := by
  have hm1 := List.mem_of_mem_drop hm
  have hk : len - 1 ≠ 0 := by
    intro h0
    rw [h0] at hm1
    simp at hm1
  have hm2 := List.mem_of_mem_take hm1
  simp only [List.mem_flatMap, List.mem_range, List.mem_map] at hm2
  obtain ⟨a, ha, b, hb, rfl⟩ := hm2
  have hx : x ≠ 0 := by
    intro h; subst h; simp at hlen; omega
  have hy : y ≠ 0 := by
    intro h; subst h; simp at hlen; omega
  simp only
  omega

/-! ## interior of an enumerated list -/

theorem gd_interior_withIdx {α} (x : List α) (p : Nat × α) (hp : p ∈ interior (withIdx x)) :
    1 ≤ p.1 ∧ p.1 < x.length - 1 ∧ 2 ≤ x.length - 1 := by
  unfold interior withIdx at hp
  obtain ⟨i, hi, rfl⟩ := List.mem_iff_getElem.1 hp
  simp only [List.length_drop, List.length_take, List.length_zip, List.length_range, Nat.min_self] at hi
  simp only [List.getElem_drop, List.getElem_take, List.getElem_zip, List.getElem_range]
  omega

/-! ## non-empty data: all axes ≥ 1 -/

theorem gd_axes_pos {α} (a : Arr α) (hlen : a.data.length = size a.shape) (hne : a.data ≠ []) :
    ∀ v ∈ a.shape, 1 ≤ v := by
  apply pos_of_size_pos
  rw [← hlen]
  exact List.length_pos_iff.2 hne

/-! ## writer -/

theorem gd_npyHeader_isNone_iff (shape : List Nat) :
    (npyHeader shape).isNone ↔ 65536 ≤ (npyDict shape).length + (64 - (10 + (npyDict shape).length) % 64) := by
  unfold npyHeader
  simp only
  split
  · rename_i h; constructor
    · intro h'; simp at h'
    · intro h'; omega
  · rename_i h; constructor
    · intro _; omega
    · intro _; rfl

/-! ## sample map: ids are contiguous -/

theorem gd_ids_contiguous (R : List (String × Pop)) (id : Nat)
    (hid : id < (distinctInOrder (R.map (·.2))).length) :
    ∃ p ∈ R.map (fun p => (p.1, (distinctInOrder (R.map (·.2))).idxOf p.2)), p.2 = id := by
  have hspec := distinct_spec (R.map (·.2))
  have hmem : (distinctInOrder (R.map (·.2)))[id] ∈ R.map (·.2) :=
    (hspec.2.1 _).1 (List.getElem_mem hid)
  obtain ⟨q, hq, hq2⟩ := List.mem_map.1 hmem
  refine ⟨(q.1, (distinctInOrder (R.map (·.2))).idxOf q.2), List.mem_map_of_mem hq, ?_⟩
  simp only
  rw [hq2]
  exact hspec.1.idxOf_getElem id hid

theorem gd_map_shape_guard (l : List (String × Pop)) :
    ∀ id, id < numPops (sampleMap l) → ∃ p ∈ sampleMap l, p.2 = id := by
  intro id hid
  rw [sampleMap_eq] at hid ⊢
  rw [numPops_idx] at hid
  exact gd_ids_contiguous _ id hid

end Sfs
