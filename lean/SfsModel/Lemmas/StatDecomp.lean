/-
Helper lemmas for C14 (f2 decompositions).
-/
import SfsModel.Model.Stat
import SfsModel.Spec.Stat
import SfsModel.Lemmas.Marginalize
import SfsModel.Lemmas.View
import Mathlib.Algebra.BigOperators.Group.Finset.Basic
import Mathlib.Algebra.BigOperators.Ring.Finset
import Mathlib.Algebra.BigOperators.Field
import Mathlib.Algebra.CharZero.Defs
import Mathlib.Tactic.Ring
namespace Sfs
open Finset

/-! ### `freqSum` as a finite sum -/

theorem sd_withIdx_map {β γ : Type} (l : List β) (d : β) (F : Nat × β → γ) :
    (withIdx l).map F = (List.range l.length).map (fun i => F (i, l.getD i d)) := by
  unfold withIdx
  apply List.ext_getElem
  · simp
  · intro i h1 h2
    have hi : i < l.length := by simpa using h2
    simp [List.getD_eq_getElem?_getD, List.getElem?_eq_getElem hi]

/-- per-axis frequencies of a multi-index -/
def sd_fr {α : Type} [Div α] [NatCast α] (shape idx : List Nat) : List α :=
  (List.zip idx shape).map (fun p => ((p.1 : Nat) : α) / ((p.2 - 1 : Nat) : α))

theorem sd_freqs_eq {α : Type} [Div α] [NatCast α] (shape : List Nat) (f : Nat) (hf : f < size shape) :
    (freqs shape f : List α) = sd_fr shape (unflat shape f) := by
  unfold freqs sd_fr
  rw [C19.indexFromFlat_eq shape f hf]

theorem sd_freqSum_eq {α : Type} [Field α] (w : List α → α) (a : Arr α)
    (hlen : a.data.length = size a.shape) :
    freqSum w a = ∑ f ∈ range (size a.shape), a.data.getD f 0 * w (sd_fr a.shape (unflat a.shape f)) := by
  unfold freqSum
  rw [sumList_eq_sum, sd_withIdx_map a.data 0, list_range_sum, hlen]
  apply Finset.sum_congr rfl
  intro f hf
  rw [sd_freqs_eq _ _ (mem_range.mp hf)]

/-! ### normalisation -/

theorem sd_freqSum_normalized {α : Type} [Field α] (w : List α → α) (a : Arr α)
    (hlen : a.data.length = size a.shape) :
    freqSum w (normalized a) =
      (∑ f ∈ range (size a.shape), a.data.getD f 0 * w (sd_fr a.shape (unflat a.shape f))) / a.data.sum := by
  rw [sd_freqSum_eq w (normalized a) (by simp only [normalized, normalize_length]; exact hlen)]
  simp only [normalized]
  rw [Finset.sum_div]
  apply Finset.sum_congr rfl
  intro f _
  rw [normalize_getD, div_mul_eq_mul_div]

/-! ### dropping positions commutes with the frequency map -/

theorem sd_dropFrom_zip_map {β γ δ : Type} (A : List Nat) (F : β × γ → δ) :
    ∀ (l : List β) (m : List γ) (n : Nat),
      ((dropFrom A l n).zip (dropFrom A m n)).map F = dropFrom A ((l.zip m).map F) n
  | [], m, n => by simp [dropFrom_nil]
  | _ :: _, [], n => by simp [dropFrom_nil]
  | x :: l, y :: m, n => by
    have ih := sd_dropFrom_zip_map A F l m (n + 1)
    simp only [List.zip_cons_cons, List.map_cons, dropFrom_cons]
    by_cases h : n ∈ A
    · simp only [if_pos h, ih]
    · simp only [if_neg h, List.zip_cons_cons, List.map_cons, ih]

theorem sd_fr_dropIdx {α : Type} [Div α] [NatCast α] (A : List Nat) (shape idx : List Nat) :
    (sd_fr (dropIdx A shape) (dropIdx A idx) : List α) = dropIdx A (sd_fr shape idx) := by
  unfold sd_fr dropIdx
  exact sd_dropFrom_zip_map A _ idx shape 0

theorem sd_dropFrom_inB (A : List Nat) : ∀ (s idx : List Nat) (n : Nat), InB s idx →
    InB (dropFrom A s n) (dropFrom A idx n)
  | [], [], n, _ => by simp [dropFrom_nil, InB]
  | v :: s, i :: idx, n, h => by
    have ih := sd_dropFrom_inB A s idx (n + 1) h.2
    rw [dropFrom_cons, dropFrom_cons]
    by_cases hn : n ∈ A
    · rw [if_pos hn, if_pos hn]; exact ih
    · rw [if_neg hn, if_neg hn]; exact ⟨h.1, ih⟩
  | [], _ :: _, _, h => by simp [InB] at h
  | _ :: _, [], _, h => by simp [InB] at h

theorem sd_dropIdx_inB (A : List Nat) (s idx : List Nat) (h : InB s idx) :
    InB (dropIdx A s) (dropIdx A idx) := sd_dropFrom_inB A s idx 0 h

/-! ### the marginal pushes forward -/

theorem sd_marg_push {α : Type} [Field α] (A : List Nat) (a b : Arr α) (hb : IsMarg A a b)
    (G : List Nat → α) :
    ∑ t ∈ range (size b.shape), b.data.getD t 0 * G (unflat b.shape t)
      = ∑ f ∈ range (size a.shape), a.data.getD f 0 * G (dropIdx A (unflat a.shape f)) := by
  obtain ⟨hs, hd⟩ := hb
  rw [hs]
  have h1 : ∀ t ∈ range (size (dropIdx A a.shape)),
      b.data.getD t 0 * G (unflat (dropIdx A a.shape) t)
        = ∑ f ∈ range (size a.shape),
            if dropIdx A (unflat a.shape f) = unflat (dropIdx A a.shape) t
              then a.data.getD f 0 * G (dropIdx A (unflat a.shape f)) else 0 := by
    intro t ht
    have ht' := mem_range.mp ht
    rw [hd, List.getD_eq_getElem?_getD, List.getElem?_map, List.getElem?_range ht']
    simp only [Option.map_some, Option.getD_some]
    rw [Finset.sum_mul]
    apply Finset.sum_congr rfl
    intro f _
    by_cases he : dropIdx A (unflat a.shape f) = unflat (dropIdx A a.shape) t
    · rw [if_pos he, if_pos he, he]
    · rw [if_neg he, if_neg he, zero_mul]
  rw [Finset.sum_congr rfl h1]
  exact sum_indicator_mass _ _ _ _ (fun f => flat (dropIdx A a.shape) (dropIdx A (unflat a.shape f)))
    (fun f hf => flat_lt _ _ (sd_dropIdx_inB A _ _ (unflat_inB _ _ hf)))
    (fun f hf t ht => unflat_eq_iff _ _ (sd_dropIdx_inB A _ _ (unflat_inB _ _ hf)) t ht)

/-- `freqSum` of the normalised marginal, as a sum over the cells of the full spectrum. -/
theorem sd_freqSum_marg {α : Type} [Field α] (w : List α → α) (A : List Nat) (a b : Arr α)
    (hb : IsMarg A a b) (hsum : b.data.sum = a.data.sum) :
    freqSum w (normalized b) =
      (∑ f ∈ range (size a.shape), a.data.getD f 0 * w (dropIdx A (sd_fr a.shape (unflat a.shape f))))
        / a.data.sum := by
  rw [sd_freqSum_normalized w b hb.data_length, hsum,
    sd_marg_push A a b hb (fun idx => w (sd_fr b.shape idx)), hb.1]
  simp only [sd_fr_dropIdx]

theorem sd_marginalize {α : Type} [Field α] (w : List α → α) (a : Arr α) (axes : List Nat)
    (hlen : a.data.length = size a.shape) (hnd : axes.Nodup)
    (hb : ∀ ax ∈ axes, ax < a.shape.length) (hl : axes.length < a.shape.length) :
    ∃ b, marginalize a axes = .ok b ∧
      freqSum w (normalized b) =
        (∑ f ∈ range (size a.shape), a.data.getD f 0 * w (dropIdx axes (sd_fr a.shape (unflat a.shape f))))
          / a.data.sum := by
  have h := marginalize_isMarg a axes hlen hnd hb
  exact ⟨_, marginalize_ok a axes hnd hb hl, sd_freqSum_marg w axes a _ h.1 h.2⟩

/-! ### the pointwise identities -/

theorem sd_fr_length {α : Type} [Div α] [NatCast α] (shape idx : List Nat) (h : idx.length = shape.length) :
    (sd_fr shape idx : List α).length = shape.length := by
  unfold sd_fr
  simp [h]

theorem sd_unflat_length : ∀ (s : List Nat) (f : Nat), (unflat s f).length = s.length
  | [], _ => rfl
  | _ :: s, f => by simp [unflat, sd_unflat_length s]

abbrev sd_w2 {α : Type} [Field α] : List α → α := fun f => (nth f 0 - nth f 1) * (nth f 0 - nth f 1)
abbrev sd_w3 {α : Type} [Field α] : List α → α := fun f => (nth f 0 - nth f 1) * (nth f 0 - nth f 2)
abbrev sd_w4 {α : Type} [Field α] : List α → α := fun f => (nth f 0 - nth f 1) * (nth f 2 - nth f 3)

theorem sd_point3 {α : Type} [Field α] (l : List α) (h : l.length = 3) :
    sd_w2 (dropIdx [2] l) + sd_w2 (dropIdx [1] l) - sd_w2 (dropIdx [0] l) = 2 * sd_w3 l := by
  match l, h with
  | [p, q, r], _ =>
    have e2 : dropIdx [2] [p, q, r] = [p, q] := rfl
    have e1 : dropIdx [1] [p, q, r] = [p, r] := rfl
    have e0 : dropIdx [0] [p, q, r] = [q, r] := rfl
    rw [e2, e1, e0]
    simp only [sd_w2, sd_w3, nth, List.getD_cons_zero, List.getD_cons_succ]
    ring

theorem sd_point4 {α : Type} [Field α] (l : List α) (h : l.length = 4) :
    sd_w2 (dropIdx [1, 2] l) + sd_w2 (dropIdx [0, 3] l) - sd_w2 (dropIdx [1, 3] l) - sd_w2 (dropIdx [0, 2] l)
      = 2 * sd_w4 l := by
  match l, h with
  | [p, q, r, s], _ =>
    have e1 : dropIdx [1, 2] [p, q, r, s] = [p, s] := rfl
    have e2 : dropIdx [0, 3] [p, q, r, s] = [q, r] := rfl
    have e3 : dropIdx [1, 3] [p, q, r, s] = [p, r] := rfl
    have e4 : dropIdx [0, 2] [p, q, r, s] = [q, s] := rfl
    rw [e1, e2, e3, e4]
    simp only [sd_w2, sd_w4, nth, List.getD_cons_zero, List.getD_cons_succ]
    ring

/-! ### the two decompositions -/

theorem sd_two_ne_zero {α : Type} [Field α] [CharZero α] : (2 : α) ≠ 0 := by
  simp

theorem sd_f3_from_f2 {α : Type} [Field α] [CharZero α] (a : Arr α)
    (hlen : a.data.length = size a.shape) (h3 : a.shape.length = 3) :
    ∃ mAB mAC mBC, marginalize a [2] = .ok mAB ∧ marginalize a [1] = .ok mAC ∧ marginalize a [0] = .ok mBC ∧
      statF3 (normalized a) =
        (statF2 (normalized mAB) + statF2 (normalized mAC) - statF2 (normalized mBC)) / 2 := by
  obtain ⟨mAB, hAB, eAB⟩ := sd_marginalize sd_w2 a [2] hlen (by simp) (by simp [h3]) (by simp [h3])
  obtain ⟨mAC, hAC, eAC⟩ := sd_marginalize sd_w2 a [1] hlen (by simp) (by simp [h3]) (by simp [h3])
  obtain ⟨mBC, hBC, eBC⟩ := sd_marginalize sd_w2 a [0] hlen (by simp) (by simp [h3]) (by simp [h3])
  refine ⟨mAB, mAC, mBC, hAB, hAC, hBC, ?_⟩
  have e3 := sd_freqSum_normalized sd_w3 a hlen
  show freqSum sd_w3 (normalized a) = (freqSum sd_w2 (normalized mAB) + freqSum sd_w2 (normalized mAC)
    - freqSum sd_w2 (normalized mBC)) / 2
  rw [eAB, eAC, eBC, e3, ← add_div, ← sub_div, ← Finset.sum_add_distrib, ← Finset.sum_sub_distrib]
  have hp : ∀ f ∈ range (size a.shape),
      a.data.getD f 0 * sd_w2 (dropIdx [2] (sd_fr a.shape (unflat a.shape f)))
        + a.data.getD f 0 * sd_w2 (dropIdx [1] (sd_fr a.shape (unflat a.shape f)))
        - a.data.getD f 0 * sd_w2 (dropIdx [0] (sd_fr a.shape (unflat a.shape f)))
      = 2 * (a.data.getD f 0 * sd_w3 (sd_fr a.shape (unflat a.shape f))) := by
    intro f _
    have := sd_point3 (sd_fr (α := α) a.shape (unflat a.shape f))
      (by rw [sd_fr_length _ _ (sd_unflat_length _ _), h3])
    rw [← mul_add, ← mul_sub, this]; ring
  rw [Finset.sum_congr rfl hp, ← Finset.mul_sum, div_div, mul_comm _ (2 : α), ← div_div,
    mul_div_cancel_left₀ _ sd_two_ne_zero]

theorem sd_f4_from_f2 {α : Type} [Field α] [CharZero α] (a : Arr α)
    (hlen : a.data.length = size a.shape) (h4 : a.shape.length = 4) :
    ∃ mAD mBC mAC mBD, marginalize a [1, 2] = .ok mAD ∧ marginalize a [0, 3] = .ok mBC ∧
      marginalize a [1, 3] = .ok mAC ∧ marginalize a [0, 2] = .ok mBD ∧
      statF4 (normalized a) =
        (statF2 (normalized mAD) + statF2 (normalized mBC) - statF2 (normalized mAC) - statF2 (normalized mBD)) / 2 := by
  obtain ⟨mAD, hAD, eAD⟩ := sd_marginalize sd_w2 a [1, 2] hlen (by simp) (by simp [h4]) (by simp [h4])
  obtain ⟨mBC, hBC, eBC⟩ := sd_marginalize sd_w2 a [0, 3] hlen (by simp) (by simp [h4]) (by simp [h4])
  obtain ⟨mAC, hAC, eAC⟩ := sd_marginalize sd_w2 a [1, 3] hlen (by simp) (by simp [h4]) (by simp [h4])
  obtain ⟨mBD, hBD, eBD⟩ := sd_marginalize sd_w2 a [0, 2] hlen (by simp) (by simp [h4]) (by simp [h4])
  refine ⟨mAD, mBC, mAC, mBD, hAD, hBC, hAC, hBD, ?_⟩
  have e4 := sd_freqSum_normalized sd_w4 a hlen
  show freqSum sd_w4 (normalized a) = (freqSum sd_w2 (normalized mAD) + freqSum sd_w2 (normalized mBC)
    - freqSum sd_w2 (normalized mAC) - freqSum sd_w2 (normalized mBD)) / 2
  rw [eAD, eBC, eAC, eBD, e4, ← add_div, ← sub_div, ← sub_div, ← Finset.sum_add_distrib,
    ← Finset.sum_sub_distrib, ← Finset.sum_sub_distrib]
  have hp : ∀ f ∈ range (size a.shape),
      a.data.getD f 0 * sd_w2 (dropIdx [1, 2] (sd_fr a.shape (unflat a.shape f)))
        + a.data.getD f 0 * sd_w2 (dropIdx [0, 3] (sd_fr a.shape (unflat a.shape f)))
        - a.data.getD f 0 * sd_w2 (dropIdx [1, 3] (sd_fr a.shape (unflat a.shape f)))
        - a.data.getD f 0 * sd_w2 (dropIdx [0, 2] (sd_fr a.shape (unflat a.shape f)))
      = 2 * (a.data.getD f 0 * sd_w4 (sd_fr a.shape (unflat a.shape f))) := by
    intro f _
    have := sd_point4 (sd_fr (α := α) a.shape (unflat a.shape f))
      (by rw [sd_fr_length _ _ (sd_unflat_length _ _), h4])
    rw [← mul_add, ← mul_sub, ← mul_sub, this]; ring
  rw [Finset.sum_congr rfl hp, ← Finset.mul_sum, div_div, mul_comm _ (2 : α), ← div_div,
    mul_div_cancel_left₀ _ sd_two_ne_zero]

end Sfs
