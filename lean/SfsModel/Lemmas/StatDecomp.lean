/-
Helper lemmas for C14 (f2 decompositions).
-/
import SfsModel.Model.Stat
import SfsModel.Spec.Stat
import SfsModel.Lemmas.Marginalize
namespace Sfs

end Sfs
