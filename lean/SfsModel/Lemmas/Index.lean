/-
Helper lemmas for L0 (core Lean only): the flat/multi-index bijection, the mirror trick,
the odometer step, the running-quotient loops.
-/
import SfsModel.Model.Index
namespace Sfs

theorem size_pos_of_inB : ∀ s idx, InB s idx → 0 < size s
  | [], [], _ => by simp [size]
  | v :: s, i :: idx, h => by
    have := size_pos_of_inB s idx h.2
    simp only [size]; exact Nat.mul_pos (by have := h.1; omega) this
  | [], _ :: _, h => by simp [InB] at h
  | _ :: _, [], h => by simp [InB] at h

theorem flat_lt : ∀ s idx, InB s idx → flat s idx < size s
  | [], [], _ => by simp [flat, size]
  | v :: s, i :: idx, h => by
    have h1 := flat_lt s idx h.2
    have h2 := h.1
    simp only [flat, size]
    calc i * size s + flat s idx < i * size s + size s := by omega
      _ = (i + 1) * size s := by rw [Nat.add_mul, Nat.one_mul]
      _ ≤ v * size s := Nat.mul_le_mul_right _ (by omega)
  | [], _ :: _, h => by simp [InB] at h
  | _ :: _, [], h => by simp [InB] at h

theorem unflat_flat : ∀ s idx, InB s idx → unflat s (flat s idx) = idx
  | [], [], _ => by simp [unflat]
  | v :: s, i :: idx, h => by
    have hlt := flat_lt s idx h.2
    have ih := unflat_flat s idx h.2
    have hpos : 0 < size s := by omega
    simp only [flat, unflat]
    have h1 : (i * size s + flat s idx) / size s = i := by
      rw [Nat.mul_comm, Nat.mul_add_div hpos, Nat.div_eq_of_lt hlt]; simp
    have h2 : (i * size s + flat s idx) % size s = flat s idx := by
      rw [Nat.mul_comm, Nat.mul_add_mod]; exact Nat.mod_eq_of_lt hlt
    rw [h1, h2, ih]
  | [], _ :: _, h => by simp [InB] at h
  | _ :: _, [], h => by simp [InB] at h

theorem flat_unflat : ∀ s i, i < size s → flat s (unflat s i) = i
  | [], i, h => by simp [size] at h; simp [flat, unflat, h]
  | v :: s, i, h => by
    simp only [size] at h
    have hpos : 0 < size s := by
      rcases Nat.eq_zero_or_pos (size s) with h0 | h0
      · rw [h0] at h; simp at h
      · exact h0
    have ih := flat_unflat s (i % size s) (Nat.mod_lt _ hpos)
    simp only [unflat, flat, ih]
    exact Nat.div_add_mod' i (size s)

theorem flat_mirror : ∀ s idx, InB s idx → flat s (mirror s idx) = size s - 1 - flat s idx
  | [], [], _ => by simp [flat, mirror, size]
  | v :: s, i :: idx, h => by
    have ih := flat_mirror s idx h.2
    have hlt := flat_lt s idx h.2
    have hi := h.1
    simp only [flat, mirror, size, ih]
    -- (v-1-i)*S + (S-1-f) = v*S - 1 - (i*S+f)
    have e : v = (v - 1 - i) + i + 1 := by omega
    generalize hS : size s = S at *
    generalize hf : flat s idx = f at *
    generalize hk : v - 1 - i = k at *
    subst e
    rw [show (k + i + 1) * S = k * S + i * S + S by rw [Nat.add_mul, Nat.add_mul, Nat.one_mul]]
    omega
  | [], _ :: _, h => by simp [InB] at h
  | _ :: _, [], h => by simp [InB] at h
theorem unflat_zero : ∀ s, unflat s 0 = List.replicate s.length 0
  | [] => by simp [unflat]
  | _ :: s => by simp [unflat, unflat_zero s, List.replicate_succ]

theorem incr_unflat : ∀ s i, i < size s →
    incr s (unflat s i) = if i + 1 < size s then some (unflat s (i + 1)) else none
  | [], i, h => by simp [size] at h; simp [incr, unflat, size, h]
  | v :: s, i, h => by
    simp only [size] at h
    have hpos : 0 < size s := by
      rcases Nat.eq_zero_or_pos (size s) with h0 | h0
      · rw [h0] at h; simp at h
      · exact h0
    have ih := incr_unflat s (i % size s) (Nat.mod_lt _ hpos)
    have hr := Nat.mod_lt i hpos
    have hdm := Nat.div_add_mod i (size s)
    have hq : i / size s < v := Nat.div_lt_of_lt_mul (by rw [Nat.mul_comm] at h; exact h)
    simp only [unflat, incr, ih, size]
    by_cases hc : i % size s + 1 < size s
    · -- no carry
      have e1 : (i + 1) / size s = i / size s := by
        have : i + 1 = size s * (i / size s) + (i % size s + 1) := by omega
        rw [this, Nat.mul_add_div hpos, Nat.div_eq_of_lt hc]; simp
      have e2 : (i + 1) % size s = i % size s + 1 := by
        have : i + 1 = size s * (i / size s) + (i % size s + 1) := by omega
        rw [this, Nat.mul_add_mod, Nat.mod_eq_of_lt hc]
      have e3 : i + 1 < v * size s := by
        have : (i / size s + 1) * size s ≤ v * size s := Nat.mul_le_mul_right _ hq
        rw [Nat.add_mul, Nat.one_mul, Nat.mul_comm] at this
        omega
      simp [hc, e1, e2, e3]
    · -- carry
      have hS : i % size s + 1 = size s := by omega
      have e0 : i + 1 = size s * (i / size s + 1) := by rw [Nat.mul_add, Nat.mul_one]; omega
      have e1 : (i + 1) / size s = i / size s + 1 := by rw [e0, Nat.mul_div_cancel_left _ hpos]
      have e2 : (i + 1) % size s = 0 := by rw [e0]; exact Nat.mul_mod_right _ _
      have e3 : (i + 1 < v * size s) ↔ (i / size s + 1 < v) := by
        rw [e0, Nat.mul_comm v]
        exact Nat.mul_lt_mul_left hpos
      simp only [hc, if_false]
      by_cases hv : i / size s + 1 < v
      · simp [hv, e3.mpr hv, e1, e2, unflat_zero]
      · simp [hv, mt e3.mp hv]

theorem unflat_inB : ∀ s i, i < size s → InB s (unflat s i)
  | [], i, _ => by simp [unflat, InB]
  | v :: s, i, h => by
    simp only [size] at h
    have hpos : 0 < size s := by
      rcases Nat.eq_zero_or_pos (size s) with h0 | h0
      · rw [h0] at h; simp at h
      · exact h0
    simp only [unflat, InB]
    exact ⟨Nat.div_lt_of_lt_mul (by rw [Nat.mul_comm] at h; exact h), unflat_inB s _ (Nat.mod_lt _ hpos)⟩

theorem len_le_sum : ∀ s idx, InB s idx → s.length ≤ s.sum
  | [], [], _ => by simp
  | v :: s, i :: idx, h => by
    have := len_le_sum s idx h.2
    have := h.1
    simp only [List.sum_cons, List.length_cons]; omega
  | [], _ :: _, h => by simp [InB] at h
  | _ :: _, [], h => by simp [InB] at h

theorem mirror_inB : ∀ s idx, InB s idx → InB s (mirror s idx)
  | [], [], _ => by simp [mirror, InB]
  | v :: s, i :: idx, h => by
    have := h.1
    simp only [mirror, InB]
    exact ⟨by omega, mirror_inB s idx h.2⟩
  | [], _ :: _, h => by simp [InB] at h
  | _ :: _, [], h => by simp [InB] at h

theorem sum_mirror : ∀ s idx, InB s idx → (mirror s idx).sum + idx.sum = s.sum - s.length
  | [], [], _ => by simp [mirror]
  | v :: s, i :: idx, h => by
    have ih := sum_mirror s idx h.2
    have hi := h.1
    have hlen : s.length ≤ s.sum := len_le_sum s idx h.2
    simp only [mirror, List.sum_cons, List.length_cons]
    omega
  | [], _ :: _, h => by simp [InB] at h
  | _ :: _, [], h => by simp [InB] at h

/-! ### C19 helpers: strides / dot / inBounds / running-quotient loop / removeAt / insertAt -/

theorem strides_length : ∀ s, (strides s).length = s.length
  | [] => rfl
  | _ :: s => by simp [strides, strides_length s]

theorem InB_length : ∀ s idx, InB s idx → idx.length = s.length
  | [], [], _ => rfl
  | v :: s, i :: idx, h => by simp [InB_length s idx h.2]
  | [], _ :: _, h => by simp [InB] at h
  | _ :: _, [], h => by simp [InB] at h

theorem inBounds_iff : ∀ s idx, idx.length = s.length → (inBounds s idx = true ↔ InB s idx)
  | [], [], _ => by simp [inBounds, InB]
  | v :: s, i :: idx, h => by
    have ih := inBounds_iff s idx (by simpa using h)
    simp [inBounds, InB, ih]
  | [], _ :: _, h => by simp at h
  | _ :: _, [], h => by simp at h

theorem pos_of_size_pos : ∀ s, 0 < size s → ∀ w ∈ s, 0 < w
  | [], _, w, hw => by simp at hw
  | v :: s, h, w, hw => by
    simp only [size] at h
    have hv : 0 < v := Nat.pos_of_mul_pos_right h
    have hs : 0 < size s := Nat.pos_of_mul_pos_left h
    rcases List.mem_cons.mp hw with rfl | hw'
    · exact hv
    · exact pos_of_size_pos s hs w hw'

theorem size_append (a b : List Nat) : size (a ++ b) = size a * size b := by
  induction a with
  | nil => simp [size]
  | cons x a ih => simp [size, ih, Nat.mul_assoc]

theorem size_reverse (s : List Nat) : size s.reverse = size s := by
  induction s with
  | nil => rfl
  | cons v s ih => simp [List.reverse_cons, size_append, size, ih, Nat.mul_comm]

/-- The stride dot product is the row-major position (no bounds needed). -/
theorem dot_strides : ∀ s idx, dot (strides s) idx = flat s idx
  | [], idx => by simp [strides, dot, flat]
  | v :: s, [] => by simp [strides, dot, flat]
  | v :: s, i :: idx => by simp [strides, dot, flat, dot_strides s idx, Nat.mul_comm]

theorem dot_comm : ∀ a b, dot a b = dot b a
  | [], [] => rfl
  | [], _ :: _ => by simp [dot]
  | _ :: _, [] => by simp [dot]
  | x :: a, y :: b => by simp [dot, dot_comm a b, Nat.mul_comm]

theorem dot_append : ∀ (a b c d : List Nat), a.length = b.length →
    dot (a ++ c) (b ++ d) = dot a b + dot c d
  | [], [], c, d, _ => by simp [dot]
  | x :: a, y :: b, c, d, h => by
    have ih := dot_append a b c d (by simpa using h)
    simp only [List.cons_append, dot, ih]; omega
  | [], _ :: _, _, _, h => by simp at h
  | _ :: _, [], _, _, h => by simp at h

theorem dot_reverse : ∀ (a b : List Nat), a.length = b.length → dot a.reverse b.reverse = dot a b
  | [], [], _ => rfl
  | x :: a, y :: b, h => by
    have h' : a.length = b.length := by simpa using h
    rw [List.reverse_cons, List.reverse_cons, dot_append _ _ _ _ (by simpa using h'),
      dot_reverse a b h']
    simp only [dot]; omega
  | [], _ :: _, h => by simp at h
  | _ :: _, [], h => by simp at h

theorem dot_replicate_zero : ∀ (n : Nat) (b : List Nat), dot (List.replicate n 0) b = 0
  | 0, b => by simp [dot]
  | n + 1, [] => by simp [dot]
  | n + 1, y :: b => by simp [List.replicate_succ, dot, dot_replicate_zero n b]

/-- The running-quotient loop of `index_from_flat_unchecked` computes the multi-index. -/
theorem unflatLoop_eq : ∀ s i, i < size s → unflatLoop (size s) i s = unflat s i
  | [], i, _ => by simp [unflatLoop, unflat]
  | v :: s, i, h => by
    simp only [size] at h
    have hpos : 0 < size s := Nat.pos_of_mul_pos_left (by omega : 0 < v * size s)
    have hv : 0 < v := Nat.pos_of_mul_pos_right (by omega : 0 < v * size s)
    have e : v * size s / v = size s := Nat.mul_div_cancel_left _ hv
    simp only [unflatLoop, unflat, size, e]
    rw [unflatLoop_eq s _ (Nat.mod_lt _ hpos)]

theorem removeAt_zero {α} (x : α) (l : List α) : removeAt (x :: l) 0 = l := by simp [removeAt]

theorem removeAt_succ {α} (x : α) (l : List α) (a : Nat) :
    removeAt (x :: l) (a + 1) = x :: removeAt l a := by simp [removeAt]

theorem insertAt_zero {α} (l : List α) (x : α) : insertAt l 0 x = x :: l := by simp [insertAt]

theorem insertAt_succ {α} (y : α) (l : List α) (a : Nat) (x : α) :
    insertAt (y :: l) (a + 1) x = y :: insertAt l a x := by simp [insertAt]

theorem removeAt_length {α} (l : List α) (a : Nat) (h : a < l.length) :
    (removeAt l a).length = l.length - 1 := by
  simp only [removeAt, List.length_append, List.length_take, List.length_drop]; omega

theorem insertAt_length {α} (l : List α) (a : Nat) (x : α) :
    (insertAt l a x).length = l.length + 1 := by
  simp only [insertAt, List.length_append, List.length_take, List.length_cons, List.length_drop]; omega

/-- Offset of an axis view plus the view-internal stride dot product is the row-major position
    of the full index with `i` inserted at `axis`. -/
theorem flat_insertAt : ∀ (s : List Nat) (axis : Nat) (k : List Nat) (i : Nat), axis < s.length →
    InB (removeAt s axis) k →
    i * (strides s).getD axis 0 + dot (removeAt (strides s) axis) k = flat s (insertAt k axis i)
  | [], _, _, _, h, _ => by simp at h
  | v :: s, 0, k, i, _, _ => by
    simp [strides, removeAt_zero, insertAt_zero, flat, dot_strides]
  | v :: s, a + 1, [], i, _, hk => by simp [removeAt_succ, InB] at hk
  | v :: s, a + 1, k0 :: k, i, h, hk => by
    rw [removeAt_succ] at hk
    have ih := flat_insertAt s a k i (by simpa using h) hk.2
    simp only [strides, removeAt_succ, insertAt_succ, flat, dot, List.getD_cons_succ]
    rw [← ih, Nat.mul_comm (size s) k0]; omega

theorem insertAt_inB : ∀ (s : List Nat) (axis : Nat) (k : List Nat) (i : Nat), axis < s.length →
    i < s.getD axis 0 → InB (removeAt s axis) k → InB s (insertAt k axis i)
  | [], _, _, _, h, _, _ => by simp at h
  | v :: s, 0, k, i, _, hi, hk => by
    rw [removeAt_zero] at hk
    rw [insertAt_zero]
    exact ⟨by simpa using hi, hk⟩
  | v :: s, a + 1, [], i, _, _, hk => by simp [removeAt_succ, InB] at hk
  | v :: s, a + 1, k0 :: k, i, h, hi, hk => by
    rw [removeAt_succ] at hk
    rw [insertAt_succ]
    exact ⟨hk.1, insertAt_inB s a k i (by simpa using h) (by simpa using hi) hk.2⟩

end Sfs
