/-
Helper lemmas for C06 (published estimators).
-/
import SfsModel.Model.Stat
import SfsModel.Spec.Stat
import SfsModel.Lemmas.View
import Mathlib.Algebra.Order.Field.Basic
import Mathlib.Algebra.BigOperators.Group.List.Basic
import Mathlib.Algebra.BigOperators.Ring.List
import Mathlib.Algebra.Order.BigOperators.Group.List
import Mathlib.Tactic.Ring
import Mathlib.Tactic.FieldSimp
import Mathlib.Tactic.Linarith
import Mathlib.Tactic.Positivity
namespace Sfs

/-! ### the interior of a list and of its enumeration -/

theorem sp_interior_eq {β : Type} (d : β) (n : Nat) (l : List β) (hlen : l.length = n + 1) :
    interior l = (List.range' 1 (n - 1)).map (fun i => l.getD i d) := by
  unfold interior
  apply List.ext_getElem
  · simp only [List.length_drop, List.length_take, List.length_map, List.length_range']
    omega
  · intro i h1 h2
    simp only [List.length_map, List.length_range'] at h2
    simp only [List.getElem_drop, List.getElem_take, List.getElem_map, List.getElem_range']
    have : 1 + i < l.length := by omega
    simp [List.getD_eq_getElem?_getD, List.getElem?_eq_getElem this]

theorem sp_withIdx_length {β : Type} (l : List β) : (withIdx l).length = l.length := by
  simp [withIdx]

theorem sp_withIdx_getD {β : Type} (d : β) (l : List β) (i : Nat) (h : i < l.length) :
    (withIdx l).getD i (0, d) = (i, l.getD i d) := by
  unfold withIdx
  have h' : i < ((List.range l.length).zip l).length := by simp [h]
  simp [List.getD_eq_getElem?_getD, List.getElem?_eq_getElem h', List.getElem?_eq_getElem h]

theorem sp_interior_withIdx {β : Type} (d : β) (n : Nat) (l : List β) (hlen : l.length = n + 1) :
    interior (withIdx l) = (List.range' 1 (n - 1)).map (fun i => (i, l.getD i d)) := by
  rw [sp_interior_eq (0, d) n (withIdx l) (by rw [sp_withIdx_length, hlen])]
  apply List.map_congr_left
  intro i hi
  rw [List.mem_range'_1] at hi
  exact sp_withIdx_getD d l i (by omega)

/-! ### sums, harmonic numbers, theta estimators -/

open Sfs.Spec
variable {α : Type} [Field α] [LinearOrder α] [IsStrictOrderedRing α]

theorem sp_sum_map_div {β : Type} {K : Type} [DivisionRing K] (l : List β) (f : β → K) (c : K) :
    (l.map (fun i => f i / c)).sum = (l.map f).sum / c := by
  induction l with
  | nil => simp
  | cons a l ih => simp only [List.map_cons, List.sum_cons, ih, add_div]

theorem sp_harmonic_eq {K : Type} [Field K] (n : Nat) : harmonic (α := K) n = aN n := by
  unfold harmonic harmonicP aN sumOver
  simp only [pow_one]

theorem sp_harmonicP_two {K : Type} [Field K] (n : Nat) : harmonicP (α := K) n 2 = bN n := by
  unfold harmonicP bN sumOver
  simp only [pow_two, Nat.cast_mul]

theorem sp_aN_pos (n : Nat) (hn : 2 ≤ n) : 0 < aN (α := α) n := by
  unfold aN sumOver
  rw [sumList_eq_sum]
  apply List.sum_pos
  · intro y hy
    rw [List.mem_map] at hy
    obtain ⟨i, hi, rfl⟩ := hy
    rw [List.mem_range'_1] at hi
    have : (0 : α) < ((i : Nat) : α) := by exact_mod_cast hi.1
    positivity
  · intro h
    have := congrArg List.length h
    simp at this
    omega

theorem sp_segregating {K : Type} [Field K] (n : Nat) (x : List K) (hlen : x.length = n + 1) :
    segregating x = pubS n (fun i => x.getD i 0) := by
  unfold segregating pubS sumOver
  rw [sp_interior_eq 0 n x hlen]

theorem sp_binom2 (n : Nat) : binom2 n = n * (n - 1) / 2 := by
  unfold binom2
  split
  · have : n = 0 ∨ n = 1 := by omega
    rcases this with rfl | rfl <;> rfl
  · rfl

theorem sp_statTheta {K : Type} [Field K] (n : Nat) (x : List K) (hlen : x.length = n + 1) :
    statTheta x = pubThetaW n (fun i => x.getD i 0) := by
  unfold statTheta thetaEstimate pubThetaW pubS sumOver wattersonWeight
  rw [sp_interior_withIdx 0 n x hlen]
  simp only [hlen, Nat.add_sub_cancel, List.map_map, sumList_eq_sum, sp_harmonic_eq]
  rw [← sp_sum_map_div]
  congr 1
  apply List.map_congr_left
  intro i _
  simp only [Function.comp]
  ring

theorem sp_statPi {K : Type} [Field K] (n : Nat) (x : List K) (hlen : x.length = n + 1) :
    statPi x = pubPi n (fun i => x.getD i 0) := by
  unfold statPi thetaEstimate pubPi sumOver tajimaWeight
  rw [sp_interior_withIdx 0 n x hlen]
  simp only [hlen, Nat.add_sub_cancel, List.map_map, sumList_eq_sum, sp_binom2]
  rw [← sp_sum_map_div]
  congr 1
  apply List.map_congr_left
  intro i _
  simp only [Function.comp]
  ring

/-! ### the D statistics -/

theorem sp_dTajima {K : Type} [Field K] (n : Nat) (x : List K) (hlen : x.length = n + 1) :
    dTajima x = pubTajimaD n (fun i => x.getD i 0) := by
  unfold dTajima pubTajimaD pubTajimaVar
  simp only [hlen, Nat.add_sub_cancel, sp_harmonic_eq, sp_harmonicP_two, sp_statPi n x hlen, sp_statTheta n x hlen,
    sp_segregating n x hlen, pow_two]

theorem sp_fuLi_c {K : Type} [Field K] (n : Nat) (a : K) :
    (((2 * n : Nat) : K) * a - ((4 * (n - 1) : Nat) : K)) / ((((n - 1) * (n - 2) : Nat)) : K) =
      (((2 : Nat) : K) * (((n : Nat) : K) * a - ((2 * (n - 1) : Nat) : K))) / ((((n - 1) * (n - 2) : Nat)) : K) := by
  congr 1
  have h4 : ((4 * (n - 1) : Nat) : K) = 2 * ((2 * (n - 1) : Nat) : K) := by
    rw [show 4 * (n - 1) = 2 * (2 * (n - 1)) by omega, Nat.cast_mul (2 : Nat)]
    rfl
  rw [h4, Nat.cast_mul 2 n]
  simp only [Nat.cast_ofNat]
  ring

theorem sp_dFuLi (n : Nat) (hn : 3 ≤ n) (x : List α) (hlen : x.length = n + 1) :
    ∃ p, dFuLi x = some p ∧ p.num = (pubFuLiD n (fun i => x.getD i 0)).num ∧
      p.var = (pubFuLiD n (fun i => x.getD i 0)).var := by
  have h1 : 1 < x.length := by omega
  have hx : thetaFuLi x = some (x.getD 1 0) := by
    unfold thetaFuLi
    simp [List.getD_eq_getElem?_getD, List.getElem?_eq_getElem h1]
  have ha : aN (α := α) n ≠ 0 := ne_of_gt (sp_aN_pos n (by omega))
  unfold dFuLi
  rw [hx]
  refine ⟨_, rfl, ?_, ?_⟩
  · simp only [pubFuLiD, sp_statTheta n x hlen, pubThetaW, sp_harmonic_eq, hlen, Nat.add_sub_cancel]
    field_simp
  · simp only [pubFuLiD, sp_harmonic_eq, sp_harmonicP_two, sp_segregating n x hlen, hlen, Nat.add_sub_cancel, sp_fuLi_c]

end Sfs
