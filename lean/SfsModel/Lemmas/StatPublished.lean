/-
Helper lemmas for C06 (published estimators).
-/
import SfsModel.Model.Stat
import SfsModel.Spec.Stat
import SfsModel.Lemmas.View
import Mathlib.Algebra.Order.Field.Basic
import Mathlib.Algebra.BigOperators.Group.List.Basic
import Mathlib.Algebra.BigOperators.Ring.List
import Mathlib.Algebra.Order.BigOperators.Group.List
import Mathlib.Tactic.Ring
import Mathlib.Tactic.FieldSimp
import Mathlib.Tactic.Linarith
import Mathlib.Tactic.Positivity
namespace Sfs

/-! ### the interior of a list and of its enumeration -/

theorem sp_interior_eq {β : Type} (d : β) (n : Nat) (l : List β) (hlen : l.length = n + 1) :
    interior l = (List.range' 1 (n - 1)).map (fun i => l.getD i d) := by
  unfold interior
  apply List.ext_getElem
  · simp only [List.length_drop, List.length_take, List.length_map, List.length_range']
    omega
  · intro i h1 h2
    simp only [List.length_map, List.length_range'] at h2
    simp only [List.getElem_drop, List.getElem_take, List.getElem_map, List.getElem_range']
    have : 1 + i < l.length := by omega
    simp [List.getD_eq_getElem?_getD, List.getElem?_eq_getElem this]

theorem sp_withIdx_length {β : Type} (l : List β) : (withIdx l).length = l.length := by
  simp [withIdx]

theorem sp_withIdx_getD {β : Type} (d : β) (l : List β) (i : Nat) (h : i < l.length) :
    (withIdx l).getD i (0, d) = (i, l.getD i d) := by
  unfold withIdx
  have h' : i < ((List.range l.length).zip l).length := by simp [h]
  simp [List.getD_eq_getElem?_getD, List.getElem?_eq_getElem h', List.getElem?_eq_getElem h]

theorem sp_interior_withIdx {β : Type} (d : β) (n : Nat) (l : List β) (hlen : l.length = n + 1) :
    interior (withIdx l) = (List.range' 1 (n - 1)).map (fun i => (i, l.getD i d)) := by
  rw [sp_interior_eq (0, d) n (withIdx l) (by rw [sp_withIdx_length, hlen])]
  apply List.map_congr_left
  intro i hi
  rw [List.mem_range'_1] at hi
  exact sp_withIdx_getD d l i (by omega)

end Sfs
