/-
Helper lemmas for Props/C12B.lean: a sequence of BGZF frames around *arbitrary* DEFLATE data decodes to the concatenation
of the payloads those data inflate to (the compressed-block generalisation of `bgzfDecode_encodeStored`).
-/
import SfsModel.Lemmas.Inflate
namespace Sfs

theorem bgzfFrames_length_ge (blocks : List (List Nat × List Nat)) : blocks.length ≤ (bgzfFrames blocks).length := by
  induction blocks with
  | nil => simp [bgzfFrames]
  | cons b bs ih =>
    simp only [bgzfFrames, List.flatMap_cons, List.length_append, List.length_cons] at *
    have := bgzfFrame_length b.1 b.2
    omega

theorem bgzfDecode_frames (blocks : List (List Nat × List Nat)) :
    ∀ fuel, blocks.length + 1 ≤ fuel →
    (∀ b ∈ blocks, (∃ t, inflate b.1 = some (b.2, t)) ∧ b.1.length + 25 < 65536 ∧ IsBytes b.2 ∧ b.2.length < 2 ^ 32) →
    bgzfDecode fuel (bgzfFrames blocks) = some (blocks.map (·.2)).flatten := by
  induction blocks with
  | nil =>
    intro fuel hf _
    obtain ⟨f, rfl⟩ : ∃ f, fuel = f + 1 := ⟨fuel - 1, by omega⟩
    simp [bgzfFrames, bgzfDecode]
  | cons b bs ih =>
    intro fuel hf h
    obtain ⟨f, rfl⟩ : ∃ f, fuel = f + 1 := ⟨fuel - 1, by omega⟩
    obtain ⟨⟨t, ht⟩, hc, hb, hl⟩ := h b (by simp)
    have e : bgzfFrames (b :: bs) = bgzfFrame b.1 b.2 ++ bgzfFrames bs := by simp [bgzfFrames]
    rw [e, bgzfDecode, bgzfFrame_isEmpty, bgzfBlock_frame b.1 b.2 t _ ht hc hb hl]
    simp only [Bool.false_eq_true, if_false]
    rw [ih f (by simp at hf; omega) (fun x hx => h x (by simp [hx]))]
    simp

end Sfs
