/-
Helper lemmas (TextValue): the value printed by `{:.p}` (`fmtRatFixed`) as a half-even rounded scaled integer,
its error bound, its parse by `splitDecimal` / `parseF64`, and the text reader on the writer's output.
-/
import SfsModel.Lemmas.TextRoundtrip
import SfsModel.Lemmas.Bytes
import Mathlib.Algebra.Order.Field.Basic
import Mathlib.Algebra.Order.Field.Rat
import Mathlib.Tactic.Ring
import Mathlib.Tactic.Linarith
import Mathlib.Tactic.FieldSimp
namespace Sfs

/-! ## half-even rounding of `n / d` -/

/-- `n / d` rounded to the nearest integer, ties to even. -/
def roundHE (n d : Nat) : Nat :=
  if 2 * (n % d) > d then n / d + 1 else if 2 * (n % d) < d then n / d
  else (if n / d % 2 = 1 then n / d + 1 else n / d)

theorem roundHE_bounds (n d : Nat) (hd : 0 < d) :
    2 * (roundHE n d * d) ≤ 2 * n + d ∧ 2 * n ≤ 2 * (roundHE n d * d) + d := by
  have h1 : d * (n / d) + n % d = n := Nat.div_add_mod n d
  have h2 : n % d < d := Nat.mod_lt _ hd
  have h3 : (n / d + 1) * d = d * (n / d) + d := by rw [Nat.add_mul, Nat.one_mul, Nat.mul_comm]
  have h4 : n / d * d = d * (n / d) := Nat.mul_comm _ _
  unfold roundHE
  split
  · rw [h3]; omega
  · split
    · rw [h4]; omega
    · split
      · rw [h3]; omega
      · rw [h4]; omega

theorem roundHE_le (n d k : Nat) (h : n < k * d) : roundHE n d ≤ k := by
  have h1 : n / d < k := Nat.div_lt_of_lt_mul (by rwa [Nat.mul_comm] at h)
  unfold roundHE
  split
  · omega
  · split
    · omega
    · split <;> omega

theorem roundHE_zero (n d : Nat) (h : 2 * n < d) : roundHE n d = 0 := by
  have h1 : n / d = 0 := Nat.div_eq_of_lt (by omega)
  have h2 : n % d = n := Nat.mod_eq_of_lt (by omega)
  unfold roundHE
  rw [h1, h2, if_neg (by omega), if_pos h]

/-! ## printing -/

/-- the characters of `m / 10^p` with exactly `p` decimals. -/
def fmtScaled (m p : Nat) : List Char :=
  if p = 0 then Nat.toDigits 10 (m / 10 ^ p) else Nat.toDigits 10 (m / 10 ^ p) ++ '.' :: padDigits (m % 10 ^ p) p

theorem fmtRatFixed_eq (q : Rat) (p : Nat) :
    fmtRatFixed q p = fmtScaled (roundHE (q.num.natAbs * 10 ^ p) q.den) p := rfl

theorem padDigits_length (n w : Nat) (hw : 0 < w) (h : n < 10 ^ w) : (padDigits n w).length = w := by
  have := (Nat.length_toDigits_le_iff (b := 10) (n := n) (k := w) (by decide) hw).2 h
  simp only [padDigits, List.length_append, List.length_replicate]
  omega

theorem digitsVal_padDigits (n w : Nat) : digitsVal (padDigits n w) = n := by
  simp only [padDigits, digitsVal_append, digitsVal_replicate_zero, digitsVal_toDigits]
  omega

/-! ## `splitDecimal` -/

theorem splitDecimal_digits (ip : List Char) (hne : ip ≠ []) (h : ∀ c ∈ ip, c.isDigit = true) :
    splitDecimal ip = some (ip, [], 0) := by
  have hs := takeWhile_append_stop Char.isDigit ip [] h (by simp)
  rw [List.append_nil] at hs
  have he : ip.isEmpty = false := by cases ip with | nil => exact absurd rfl hne | cons _ _ => rfl
  unfold splitDecimal
  simp only [hs.1, hs.2, he, Bool.false_and, Bool.false_eq_true, if_false]

theorem splitDecimal_point (ip fp : List Char) (hne : ip ≠ []) (h : ∀ c ∈ ip, c.isDigit = true)
    (hf : ∀ c ∈ fp, c.isDigit = true) : splitDecimal (ip ++ '.' :: fp) = some (ip, fp, 0) := by
  have hs := takeWhile_append_stop Char.isDigit ip ('.' :: fp) h (by simp)
  have hs2 := takeWhile_append_stop Char.isDigit fp [] hf (by simp)
  rw [List.append_nil] at hs2
  have he : ip.isEmpty = false := by cases ip with | nil => exact absurd rfl hne | cons _ _ => rfl
  unfold splitDecimal
  simp only [hs.1, hs.2, hs2.1, hs2.2, he, Bool.false_and, Bool.false_eq_true, if_false]

theorem toDigits_ne_nil' (n : Nat) : Nat.toDigits 10 n ≠ [] := Nat.toDigits_ne_nil

/-- the printed characters parse back to the scaled integer. -/
theorem splitDecimal_fmtScaled (m p : Nat) :
    ∃ ip fp, splitDecimal (fmtScaled m p) = some (ip, fp, 0) ∧ fp.length = p ∧ digitsVal (ip ++ fp) = m := by
  unfold fmtScaled
  by_cases hp : p = 0
  · subst hp
    refine ⟨Nat.toDigits 10 (m / 10 ^ 0), [], ?_, rfl, ?_⟩
    · rw [if_pos rfl]
      exact splitDecimal_digits _ (toDigits_ne_nil' _) (toDigits_isDigit _)
    · rw [List.append_nil, digitsVal_toDigits]; simp
  · rw [if_neg hp]
    have hpos : 0 < 10 ^ p := Nat.pow_pos (by decide)
    have hl := padDigits_length (m % 10 ^ p) p (by omega) (Nat.mod_lt _ hpos)
    refine ⟨Nat.toDigits 10 (m / 10 ^ p), padDigits (m % 10 ^ p) p, ?_, hl, ?_⟩
    · exact splitDecimal_point _ _ (toDigits_ne_nil' _) (toDigits_isDigit _) (padDigits_isDigit _ _)
    · rw [digitsVal_append, hl, digitsVal_toDigits, digitsVal_padDigits]
      exact Nat.div_add_mod m (10 ^ p)

/-! ## error of the printed value -/

theorem absRat_le_of (x c : Rat) (h1 : -c ≤ x) (h2 : x ≤ c) : absRat x ≤ c := by
  unfold absRat; split <;> linarith

theorem absRat_of_nonneg (x : Rat) (h : 0 ≤ x) : absRat x = x := by
  unfold absRat; rw [if_neg (not_lt.2 h)]

theorem absRat_nonneg (x : Rat) : 0 ≤ absRat x := by
  unfold absRat; split <;> linarith

/-- a non-negative rational as the quotient of its (natural) numerator and denominator. -/
theorem rat_eq_natAbs_div (q : Rat) (hq : 0 ≤ q) : q = (q.num.natAbs : Rat) / (q.den : Rat) := by
  have h1 : ((q.num.natAbs : Int) : Rat) = (q.num : Rat) := by
    rw [Int.natAbs_of_nonneg (Rat.num_nonneg.2 hq)]
  rw [← Int.cast_natCast, h1, Rat.num_div_den]

theorem rat_den_pos (q : Rat) : (0 : Rat) < (q.den : Rat) := by exact_mod_cast q.den_pos

theorem scaled_error (M N D T : Nat) (hD : 0 < D) (hT : 0 < T)
    (h1 : 2 * (M * D) ≤ 2 * (N * T) + D) (h2 : 2 * (N * T) ≤ 2 * (M * D) + D) :
    absRat ((M : Rat) / (T : Rat) - (N : Rat) / (D : Rat)) ≤ 1 / (2 * (T : Rat)) := by
  have hD' : (0 : Rat) < (D : Rat) := by exact_mod_cast hD
  have hT' : (0 : Rat) < (T : Rat) := by exact_mod_cast hT
  have h1' : (2 * ((M : Rat) * D) : Rat) ≤ 2 * ((N : Rat) * T) + D := by exact_mod_cast h1
  have h2' : (2 * ((N : Rat) * T) : Rat) ≤ 2 * ((M : Rat) * D) + D := by exact_mod_cast h2
  have hc : (0 : Rat) ≤ 1 / (2 * (T : Rat) * D) := le_of_lt (one_div_pos.2 (mul_pos (mul_pos two_pos hT') hD'))
  have key : (M : Rat) / T - (N : Rat) / D = (2 * ((M : Rat) * D) - 2 * ((N : Rat) * T)) * (1 / (2 * (T : Rat) * D)) := by
    field_simp
  have key2 : 1 / (2 * (T : Rat)) = (D : Rat) * (1 / (2 * (T : Rat) * D)) := by
    field_simp
  rw [key, key2]
  apply absRat_le_of
  · rw [← neg_mul]
    exact mul_le_mul_of_nonneg_right (by linarith) hc
  · exact mul_le_mul_of_nonneg_right (by linarith) hc

theorem roundHE_error (q : Rat) (hq : 0 ≤ q) (p : Nat) :
    absRat ((roundHE (q.num.natAbs * 10 ^ p) q.den : Rat) / ((10 ^ p : Nat) : Rat) - q)
      ≤ 1 / (2 * ((10 ^ p : Nat) : Rat)) := by
  have hb := roundHE_bounds (q.num.natAbs * 10 ^ p) q.den q.den_pos
  have := scaled_error (roundHE (q.num.natAbs * 10 ^ p) q.den) q.num.natAbs q.den (10 ^ p) q.den_pos
    (Nat.pow_pos (by decide)) hb.1 hb.2
  rwa [← rat_eq_natAbs_div q hq] at this

/-! ## `parseF64` on a printed value -/

/-- the numeric branch of `parseF64` for a given sign pattern. -/
def parseNum (sign : Nat) (body : List Char) : Option Nat :=
  match splitDecimal body with
    | none => none
    | some (ip, fp, e) =>
      let mant := digitsVal (ip ++ fp)
      let e10 : Int := e - (fp.length : Int)
      if mant = 0 then some sign
      else
        let digits : Int := ((Nat.toDigits 10 mant).length : Int)
        if e10 + digits > 400 then some (sign + 2047 * 2 ^ 52)
        else if e10 + digits < -400 then some sign
        else
          let q : Rat := if e10 ≥ 0 then (mant * 10 ^ e10.toNat : Nat) else (mant : Rat) / ((10 ^ (-e10).toNat : Nat) : Rat)
          some (sign + f64BitsOfRatNonneg q)

theorem log2_gap (N D k : Nat) (hN : N ≠ 0) (h : N * 2 ^ k < D) : log2Nat N + k ≤ log2Nat D := by
  unfold log2Nat
  have h1 : 2 ^ N.log2 ≤ N := Nat.log2_self_le hN
  have h2 : D < 2 ^ (D.log2 + 1) := Nat.lt_log2_self
  have h3 : 2 ^ (N.log2 + k) < 2 ^ (D.log2 + 1) := by
    rw [Nat.pow_add]
    exact Nat.lt_of_le_of_lt (Nat.mul_le_mul_right _ h1) (Nat.lt_trans h h2)
  have := (Nat.pow_lt_pow_iff_right (a := 2) (by decide)).1 h3
  omega

set_option exponentiation.threshold 2000 in
theorem f64BitsOfRatNonneg_tiny (x : Rat) (h0 : 0 < x) (h : 2 * (x.num.natAbs * 2 ^ 1074) < x.den) :
    f64BitsOfRatNonneg x = 0 := by
  have hN : x.num.natAbs ≠ 0 := by
    intro h1
    have := Int.natAbs_eq_zero.1 h1
    have := Rat.num_pos.2 h0
    omega
  have h' : x.num.natAbs * 2 ^ (1074 + 1) < x.den := by
    rw [Nat.pow_succ, ← Nat.mul_assoc, Nat.mul_comm]; exact h
  have hg := log2_gap _ _ _ hN h'
  unfold f64BitsOfRatNonneg
  rw [if_neg (not_le.2 h0)]
  extract_lets num den e0 ge e eeff sh
  have he0 : e0 ≤ -1075 := by simp only [e0, num, den]; omega
  have he1 : e ≤ e0 + 1 := by
    simp only [e]
    split
    · split <;> omega
    · omega
  have he : e < -1022 := by omega
  have heeff : eeff = -1022 := by simp only [eeff, he, if_true]
  have hsh : sh = -1074 := by simp only [sh, heeff]; rfl
  have hsh2 : ¬ (sh ≥ 0) := by omega
  have hsh3 : (-sh).toNat = 1074 := by rw [hsh]; rfl
  clear_value sh eeff e ge e0
  rw [if_neg hsh2, hsh3]
  generalize (2 : Nat) ^ 1074 = K at h ⊢
  split
  rename_i n2 d2 heq
  obtain ⟨h1, h2⟩ := Prod.mk.inj heq
  show (if e < -1022 then roundHE n2 d2 else _) = 0
  rw [if_pos he, ← h1, ← h2]
  exact roundHE_zero _ _ h

theorem f64BitsOfRatNonneg_zero (x : Rat) (h : x ≤ 0) : f64BitsOfRatNonneg x = 0 := by
  unfold f64BitsOfRatNonneg; rw [if_pos h]

/-! ## order facts between naturals and rationals -/

theorem nat_div_lt (N D K : Nat) (hD : 0 < D) (h : N < K * D) : (N : Rat) / (D : Rat) < (K : Rat) := by
  have hD' : (0 : Rat) < (D : Rat) := by exact_mod_cast hD
  rw [div_lt_iff₀ hD']
  exact_mod_cast h

theorem rat_num_lt (r : Rat) (hr : 0 ≤ r) (K : Nat) (h : r < (K : Rat)) : r.num.natAbs < K * r.den := by
  rw [rat_eq_natAbs_div r hr, div_lt_iff₀ (rat_den_pos r)] at h
  exact_mod_cast h

theorem rat_num_mul_lt (r : Rat) (hr : 0 ≤ r) (K : Nat) (h : r * (K : Rat) < 1) : r.num.natAbs * K < r.den := by
  rw [rat_eq_natAbs_div r hr, div_mul_eq_mul_div, div_lt_one (rat_den_pos r)] at h
  exact_mod_cast h

theorem nat_div_mul_lt_one (m T K : Nat) (hT : 0 < T) (h : m * K < T) : (m : Rat) / (T : Rat) * (K : Rat) < 1 := by
  have hT' : (0 : Rat) < (T : Rat) := by exact_mod_cast hT
  rw [div_mul_eq_mul_div, div_lt_one hT']
  exact_mod_cast h


theorem big_consts : 2 ^ 1024 < 10 ^ 309 ∧ 2 * 2 ^ 1074 ≤ 10 ^ 401 := by decide +kernel

/-- the reader's quotient expression for exponent `0 - p`. -/
theorem parse_quot (m p : Nat) :
    (if (0 : Int) - (p : Int) ≥ 0 then (((m * 10 ^ ((0 : Int) - (p : Int)).toNat : Nat)) : Rat)
      else (m : Rat) / ((10 ^ (-((0 : Int) - (p : Int))).toNat : Nat) : Rat)) = (m : Rat) / ((10 ^ p : Nat) : Rat) := by
  by_cases hp : p = 0
  · subst hp; simp
  · have h1 : ¬ ((0 : Int) - (p : Int) ≥ 0) := by omega
    have h2 : (-((0 : Int) - (p : Int))).toNat = p := by omega
    rw [if_neg h1, h2]

set_option exponentiation.threshold 2000 in
theorem parseNum_fmtScaled (sign m p : Nat) (hm : m ≤ 2 ^ 1024 * 10 ^ p) :
    parseNum sign (fmtScaled m p) = some (sign + f64BitsOfRatNonneg ((m : Rat) / ((10 ^ p : Nat) : Rat))) := by
  obtain ⟨ip, fp, hs, hl, hv⟩ := splitDecimal_fmtScaled m p
  have hT : 0 < 10 ^ p := Nat.pow_pos (by decide)
  unfold parseNum
  simp only [hs, hv, hl]
  by_cases hm0 : m = 0
  · subst hm0
    rw [if_pos rfl, f64BitsOfRatNonneg_zero _ (by simp)]
    rfl
  rw [if_neg hm0]
  have hLpos : 0 < (Nat.toDigits 10 m).length := Nat.length_toDigits_pos
  have hL1 : (Nat.toDigits 10 m).length ≤ 309 + p := by
    rw [Nat.length_toDigits_le_iff (by decide) (by omega), Nat.pow_add]
    exact Nat.lt_of_le_of_lt hm (Nat.mul_lt_mul_of_pos_right big_consts.1 hT)
  have hL2 : m < 10 ^ (Nat.toDigits 10 m).length :=
    (Nat.length_toDigits_le_iff (by decide) hLpos).1 (Nat.le_refl _)
  rw [if_neg (by omega)]
  split
  · rename_i hg
    have hx0 : (0 : Rat) < (m : Rat) / ((10 ^ p : Nat) : Rat) := by
      apply div_pos
      · exact_mod_cast Nat.pos_of_ne_zero hm0
      · exact_mod_cast hT
    have hlt : m * (2 * 2 ^ 1074) < 10 ^ p := by
      have h1 : (Nat.toDigits 10 m).length + 401 ≤ p := by omega
      calc m * (2 * 2 ^ 1074) < 10 ^ (Nat.toDigits 10 m).length * 10 ^ 401 :=
            Nat.mul_lt_mul_of_lt_of_le hL2 big_consts.2 (Nat.pow_pos (by decide))
        _ = 10 ^ ((Nat.toDigits 10 m).length + 401) := (Nat.pow_add _ _ _).symm
        _ ≤ 10 ^ p := Nat.pow_le_pow_right (by decide) h1
    have h3 := rat_num_mul_lt _ (le_of_lt hx0) _ (nat_div_mul_lt_one m (10 ^ p) (2 * 2 ^ 1074) hT hlt)
    rw [f64BitsOfRatNonneg_tiny _ hx0 (by rw [Nat.mul_left_comm]; exact h3)]
    rfl
  · rw [parse_quot]


/-! ## sign and word branches of `parseF64` -/

theorem lower_digit {c : Char} (h : c.isDigit = true) : lower c = c := by
  have := isDigit_toNat h
  unfold lower
  rw [if_neg]
  rintro ⟨h1, _⟩
  have : 'A'.toNat ≤ c.toNat := h1
  simp at this
  omega

theorem digit_head_not_word (c : Char) (t : List Char) (hc : c.isDigit = true) :
    ¬ ((c :: t).map lower = "inf".toList ∨ (c :: t).map lower = "infinity".toList) ∧
    ¬ ((c :: t).map lower = "nan".toList) := by
  have hd := isDigit_toNat hc
  rw [List.map_cons, lower_digit hc]
  refine ⟨?_, ?_⟩
  · rintro (h | h)
    · have h1 : c = 'i' := (List.cons.inj h).1
      subst h1; simp at hd
    · have h1 : c = 'i' := (List.cons.inj h).1
      subst h1; simp at hd
  · intro h
    have h1 : c = 'n' := (List.cons.inj h).1
    subst h1; simp at hd

theorem sign_match_digit (c : Char) (t : List Char) (hc : c.isDigit = true) :
    (match c :: t with
      | '-' :: r => (true, r)
      | '+' :: r => (false, r)
      | _ => (false, c :: t)) = (false, c :: t) := by
  have hd := isDigit_toNat hc
  split
  · rename_i h
    have h1 : c = '-' := (List.cons.inj h).1
    subst h1; simp at hd
  · rename_i h
    have h1 : c = '+' := (List.cons.inj h).1
    subst h1; simp at hd
  · rfl

theorem parseF64_digit_head (c : Char) (t : List Char) (hc : c.isDigit = true) :
    parseF64 (c :: t) = parseNum 0 (c :: t) := by
  obtain ⟨hw1, hw2⟩ := digit_head_not_word c t hc
  unfold parseF64 parseNum
  split
  rename_i x neg r4 heq
  have h2 := heq.symm.trans (sign_match_digit c t hc)
  obtain ⟨rfl, rfl⟩ := Prod.mk.inj h2
  simp only [hw1, hw2, if_false, Bool.false_eq_true]
  rfl

theorem parseF64_neg_digit_head (c : Char) (t : List Char) (hc : c.isDigit = true) :
    parseF64 ('-' :: c :: t) = parseNum (2 ^ 63) (c :: t) := by
  obtain ⟨hw1, hw2⟩ := digit_head_not_word c t hc
  unfold parseF64 parseNum
  simp only [hw1, hw2, if_false, if_true]
  rfl

/-! ## finite doubles are below 2^1024 -/

theorem absRat_neg (x : Rat) : absRat (-x) = absRat x := by
  unfold absRat
  split <;> split <;> linarith

set_option exponentiation.threshold 2000 in
/-- numerator/denominator of a finite binary64 magnitude: below `2^1024`. -/
theorem f64_mag_lt (e m : Nat) (he : e < 2047) (hm : m < 2 ^ 52) :
    (if (e == 0) = true then m else if e ≥ 1075 then (2 ^ 52 + m) * 2 ^ (e - 1075) else 2 ^ 52 + m) <
      2 ^ 1024 * (if (e == 0) = true then 2 ^ 1074 else if e ≥ 1075 then 1 else 2 ^ (1075 - e)) := by
  have hp : ∀ k, 0 < 2 ^ k := fun k => Nat.pow_pos (by decide)
  by_cases h0 : e = 0
  · subst h0
    simp only [beq_self_eq_true, if_true]
    calc m < 2 ^ 52 := hm
      _ ≤ 2 ^ 52 * (2 ^ 972 * 2 ^ 1074) := Nat.le_mul_of_pos_right _ (Nat.mul_pos (hp _) (hp _))
      _ = 2 ^ 1024 * 2 ^ 1074 := by rw [← Nat.mul_assoc, ← Nat.pow_add]
  · have hb : (e == 0) = false := by simpa using h0
    simp only [hb, Bool.false_eq_true, if_false]
    split
    · rename_i hge
      have h1 : 2 ^ (e - 1075) ≤ 2 ^ 971 := Nat.pow_le_pow_right (by decide) (by omega)
      calc (2 ^ 52 + m) * 2 ^ (e - 1075) < 2 ^ 53 * 2 ^ 971 :=
            Nat.mul_lt_mul_of_lt_of_le (by omega) h1 (hp _)
        _ = 2 ^ 1024 * 1 := by rw [← Nat.pow_add, Nat.mul_one]
    · calc 2 ^ 52 + m < 2 ^ 53 := by omega
        _ ≤ 2 ^ 53 * (2 ^ 971 * 2 ^ (1075 - e)) := Nat.le_mul_of_pos_right _ (Nat.mul_pos (hp _) (hp _))
        _ = 2 ^ 1024 * 2 ^ (1075 - e) := by rw [← Nat.mul_assoc, ← Nat.pow_add]

set_option exponentiation.threshold 2000 in
theorem f64OfBits_fin_lt (b : Nat) (q : Rat) (h : f64OfBits b = .fin q) : absRat q < ((2 ^ 1024 : Nat) : Rat) := by
  unfold f64OfBits at h
  extract_lets sign e m num den mag at h
  split at h
  · split at h <;> cases h
  · rename_i he
    have he' : e < 2047 := by
      have : e < 2 ^ 11 := Nat.mod_lt _ (by decide)
      have : e ≠ 2047 := by simpa using he
      omega
    have hm : m < 2 ^ 52 := Nat.mod_lt _ (by decide)
    have hlt := f64_mag_lt e m he' hm
    have hden : 0 < den := by
      simp only [den]
      split
      · exact Nat.pow_pos (by decide)
      · split
        · decide
        · exact Nat.pow_pos (by decide)
    have hmag : mag < ((2 ^ 1024 : Nat) : Rat) := nat_div_lt num den _ hden hlt
    have hmag0 : 0 ≤ mag := div_nonneg (Nat.cast_nonneg _) (Nat.cast_nonneg _)
    injection h with h
    rw [← h]
    split
    · rw [absRat_neg, absRat_of_nonneg _ hmag0]; exact hmag
    · rw [absRat_of_nonneg _ hmag0]; exact hmag

/-! ## re-reading a printed finite value -/

theorem roundHE_scaled_le (r : Rat) (hr : 0 ≤ r) (p : Nat) (h : r < ((2 ^ 1024 : Nat) : Rat)) :
    roundHE (r.num.natAbs * 10 ^ p) r.den ≤ 2 ^ 1024 * 10 ^ p := by
  have h1 := rat_num_lt r hr _ h
  apply roundHE_le
  have h2 := Nat.mul_lt_mul_of_pos_right h1 (Nat.pow_pos (n := p) (show 0 < 10 by decide))
  rwa [Nat.mul_right_comm] at h2

theorem parseF64_fmtFixed_fin (b p : Nat) (q : Rat) (hf : f64OfBits b = .fin q) :
    parseF64 (fmtFixed b p) =
      some ((if f64Sign b then 2 ^ 63 else 0) +
        f64BitsOfRatNonneg ((roundHE ((absRat q).num.natAbs * 10 ^ p) (absRat q).den : Rat) / ((10 ^ p : Nat) : Rat))) := by
  have hle := roundHE_scaled_le (absRat q) (absRat_nonneg q) p (f64OfBits_fin_lt b q hf)
  obtain ⟨c, t, hct, hc⟩ := fmtRatFixed_head (absRat q) p
  rw [fmtFixed_fin b p q hf]
  cases f64Sign b
  · rw [if_neg (by decide), if_neg (by decide), List.nil_append, hct, parseF64_digit_head c t hc, ← hct,
      fmtRatFixed_eq, parseNum_fmtScaled _ _ _ hle]
  · rw [if_pos rfl, if_pos rfl, List.singleton_append, hct, parseF64_neg_digit_head c t hc, ← hct,
      fmtRatFixed_eq, parseNum_fmtScaled _ _ _ hle]

theorem parseF64_fmtFixed_some (b p : Nat) : ∃ v, parseF64 (fmtFixed b p) = some v := by
  cases h : f64OfBits b with
  | fin q => exact ⟨_, parseF64_fmtFixed_fin b p q h⟩
  | nan => rw [fmtFixed_nan b p h]; exact ⟨_, parseF64_NaN⟩
  | inf s =>
    rw [fmtFixed_inf b p s h]
    cases s
    · exact ⟨_, parseF64_inf⟩
    · exact ⟨_, parseF64_neg_inf⟩

/-! ## the text reader on the writer's output -/

theorem joinNats_chars (sep : List Char) (shape : List Nat) :
    ∀ c ∈ joinNats sep shape, c ∈ sep ∨ c.isDigit = true := by
  induction shape with
  | nil => intro c hc; cases hc
  | cons a rest ih =>
    cases rest with
    | nil => intro c hc; exact .inr (showNat_isDigit a c (by simpa [joinNats] using hc))
    | cons b rest =>
      intro c hc
      rw [joinNats_cons_cons] at hc
      simp only [List.mem_append] at hc
      rcases hc with (hc | hc) | hc
      · exact .inr (showNat_isDigit a c hc)
      · exact .inl hc
      · exact ih c hc

theorem textHeader_chars (shape : List Nat) : ∀ c ∈ textHeader shape, c.toNat < 128 ∧ c ≠ '\n' := by
  intro c hc
  unfold textHeader at hc
  simp only [List.mem_append] at hc
  rcases hc with (hc | hc) | hc
  · revert c; decide
  · rcases joinNats_chars _ _ c hc with h | h
    · rw [List.mem_singleton] at h; subst h; exact ⟨by decide, by decide⟩
    · have := isDigit_toNat h
      refine ⟨by omega, ?_⟩
      rintro rfl
      simp at this
  · revert c; decide

theorem fmtFixed_chars (b p : Nat) : ∀ c ∈ fmtFixed b p, c.toNat < 128 := by
  unfold fmtFixed
  split
  · decide
  · split <;> decide
  · intro c hc
    simp only [List.mem_append] at hc
    rcases hc with hc | hc
    · split at hc
      · revert c; decide
      · cases hc
    · rcases fmtRatFixed_chars _ _ c hc with h | rfl
      · exact isDigit_lt128 h
      · decide

theorem writeText_chars (shape bits : List Nat) (p : Nat) : ∀ c ∈ writeText shape bits p, c.toNat < 128 := by
  intro c hc
  unfold writeText at hc
  simp only [List.mem_append] at hc
  rcases hc with ((hc | hc) | hc) | hc
  · exact (textHeader_chars shape c hc).1
  · revert c; decide
  · cases bits with
    | nil => cases hc
    | cons b rest =>
      simp only [foldl_sep_eq, List.mem_append, List.mem_flatMap, List.mem_cons] at hc
      rcases hc with hc | ⟨x, _, rfl | hc⟩
      · exact fmtFixed_chars b p c hc
      · decide
      · exact fmtFixed_chars x p c hc
  · revert c; decide

theorem mapM_map_some {α β γ} (t : α → β) (f : β → Option γ) (g : α → γ) (l : List α)
    (h : ∀ x ∈ l, f (t x) = some (g x)) : (l.map t).mapM f = some (l.map g) := by
  induction l with
  | nil => rfl
  | cons a rest ih =>
    simp only [List.map_cons, List.mapM_cons, h a (by simp), ih (fun x hx => h x (by simp [hx]))]
    rfl

theorem readText_writeText (shape bits : List Nat) (p : Nat) (hne : shape ≠ [])
    (hb : ∀ v ∈ shape, v < 2 ^ 64) (hcs : checkedSize shape = some bits.length) :
    ∃ bits', readText (asciiBytes (writeText shape bits p)) = .ok (shape, bits') ∧
      bits'.map some = bits.map (fun b => parseF64 (fmtFixed b p)) := by
  obtain ⟨line, hw, hsplit⟩ := writeText_tokens shape bits p (fun b => fmtFixed_tok b p)
  have hascii := allAscii_asciiBytes _ (writeText_chars shape bits p)
  have hg : ∀ b ∈ bits, parseF64 (fmtFixed b p) = some ((parseF64 (fmtFixed b p)).getD 0) := by
    intro b _
    obtain ⟨v, hv⟩ := parseF64_fmtFixed_some b p
    rw [hv]; rfl
  have hmap := mapM_map_some (fun b => fmtFixed b p) parseF64 (fun b => (parseF64 (fmtFixed b p)).getD 0) bits hg
  have htw := takeWhile_append_stop (fun c : Char => decide (c ≠ '\n')) (textHeader shape) ('\n' :: (line ++ ['\n']))
    (fun x hx => decide_eq_true (textHeader_chars shape x hx).2) (by simp)
  have hchars : writeText shape bits p = textHeader shape ++ '\n' :: (line ++ ['\n']) := by
    rw [hw]; simp
  refine ⟨bits.map (fun b => (parseF64 (fmtFixed b p)).getD 0), ?_, ?_⟩
  · unfold readText
    rw [hascii]
    simp only [Bool.not_true, Bool.false_eq_true, if_false, bytesToChars_asciiBytes]
    rw [hchars, htw.1, htw.2, List.drop_one, List.tail_cons, parseTextHeader_textHeader shape hne hb]
    simp only [hsplit, hmap, List.length_map, hcs, if_true]
  · rw [List.map_map]
    apply List.map_congr_left
    intro b hb'
    exact (hg b hb').symm

end Sfs
