/-
Helper lemmas (TextValue): the value printed by `{:.p}` (`fmtRatFixed`) as a half-even rounded scaled integer,
its error bound, its parse by `splitDecimal` / `parseF64`, and the text reader on the writer's output.
-/
import SfsModel.Lemmas.TextRoundtrip
import SfsModel.Lemmas.Bytes
import Mathlib.Algebra.Order.Field.Basic
import Mathlib.Algebra.Order.Field.Rat
import Mathlib.Tactic.Ring
import Mathlib.Tactic.Linarith
import Mathlib.Tactic.FieldSimp
namespace Sfs

/-! ## half-even rounding of `n / d` -/

/-- `n / d` rounded to the nearest integer, ties to even. -/
def roundHE (n d : Nat) : Nat :=
  if 2 * (n % d) > d then n / d + 1 else if 2 * (n % d) < d then n / d
  else (if n / d % 2 = 1 then n / d + 1 else n / d)

theorem roundHE_bounds (n d : Nat) (hd : 0 < d) :
    2 * (roundHE n d * d) ≤ 2 * n + d ∧ 2 * n ≤ 2 * (roundHE n d * d) + d := by
  have h1 : d * (n / d) + n % d = n := Nat.div_add_mod n d
  have h2 : n % d < d := Nat.mod_lt _ hd
  have h3 : (n / d + 1) * d = d * (n / d) + d := by rw [Nat.add_mul, Nat.one_mul, Nat.mul_comm]
  have h4 : n / d * d = d * (n / d) := Nat.mul_comm _ _
  unfold roundHE
  split
  · rw [h3]; omega
  · split
    · rw [h4]; omega
    · split
      · rw [h3]; omega
      · rw [h4]; omega

theorem roundHE_le (n d k : Nat) (h : n < k * d) : roundHE n d ≤ k := by
  have h1 : n / d < k := Nat.div_lt_of_lt_mul (by rwa [Nat.mul_comm] at h)
  unfold roundHE
  split
  · omega
  · split
    · omega
    · split <;> omega

theorem roundHE_zero (n d : Nat) (h : 2 * n < d) : roundHE n d = 0 := by
  have h1 : n / d = 0 := Nat.div_eq_of_lt (by omega)
  have h2 : n % d = n := Nat.mod_eq_of_lt (by omega)
  unfold roundHE
  rw [h1, h2, if_neg (by omega), if_pos h]

/-! ## printing -/

/-- the characters of `m / 10^p` with exactly `p` decimals. -/
def fmtScaled (m p : Nat) : List Char :=
  if p = 0 then Nat.toDigits 10 (m / 10 ^ p) else Nat.toDigits 10 (m / 10 ^ p) ++ '.' :: padDigits (m % 10 ^ p) p

theorem fmtRatFixed_eq (q : Rat) (p : Nat) :
    fmtRatFixed q p = fmtScaled (roundHE (q.num.natAbs * 10 ^ p) q.den) p := rfl

theorem padDigits_length (n w : Nat) (hw : 0 < w) (h : n < 10 ^ w) : (padDigits n w).length = w := by
  have := (Nat.length_toDigits_le_iff (b := 10) (n := n) (k := w) (by decide) hw).2 h
  simp only [padDigits, List.length_append, List.length_replicate]
  omega

theorem digitsVal_padDigits (n w : Nat) : digitsVal (padDigits n w) = n := by
  simp only [padDigits, digitsVal_append, digitsVal_replicate_zero, digitsVal_toDigits]
  omega

/-! ## `splitDecimal` -/

theorem splitDecimal_digits (ip : List Char) (hne : ip ≠ []) (h : ∀ c ∈ ip, c.isDigit = true) :
    splitDecimal ip = some (ip, [], 0) := by
  have hs := takeWhile_append_stop Char.isDigit ip [] h (by simp)
  rw [List.append_nil] at hs
  have he : ip.isEmpty = false := by cases ip with | nil => exact absurd rfl hne | cons _ _ => rfl
  unfold splitDecimal
  simp only [hs.1, hs.2, he, Bool.false_and, Bool.false_eq_true, if_false]

theorem splitDecimal_point (ip fp : List Char) (hne : ip ≠ []) (h : ∀ c ∈ ip, c.isDigit = true)
    (hf : ∀ c ∈ fp, c.isDigit = true) : splitDecimal (ip ++ '.' :: fp) = some (ip, fp, 0) := by
  have hs := takeWhile_append_stop Char.isDigit ip ('.' :: fp) h (by simp)
  have hs2 := takeWhile_append_stop Char.isDigit fp [] hf (by simp)
  rw [List.append_nil] at hs2
  have he : ip.isEmpty = false := by cases ip with | nil => exact absurd rfl hne | cons _ _ => rfl
  unfold splitDecimal
  simp only [hs.1, hs.2, hs2.1, hs2.2, he, Bool.false_and, Bool.false_eq_true, if_false]

theorem toDigits_ne_nil' (n : Nat) : Nat.toDigits 10 n ≠ [] := Nat.toDigits_ne_nil

/-- the printed characters parse back to the scaled integer. -/
theorem splitDecimal_fmtScaled (m p : Nat) :
    ∃ ip fp, splitDecimal (fmtScaled m p) = some (ip, fp, 0) ∧ fp.length = p ∧ digitsVal (ip ++ fp) = m := by
  unfold fmtScaled
  by_cases hp : p = 0
  · subst hp
    refine ⟨Nat.toDigits 10 (m / 10 ^ 0), [], ?_, rfl, ?_⟩
    · rw [if_pos rfl]
      exact splitDecimal_digits _ (toDigits_ne_nil' _) (toDigits_isDigit _)
    · rw [List.append_nil, digitsVal_toDigits]; simp
  · rw [if_neg hp]
    have hpos : 0 < 10 ^ p := Nat.pow_pos (by decide)
    have hl := padDigits_length (m % 10 ^ p) p (by omega) (Nat.mod_lt _ hpos)
    refine ⟨Nat.toDigits 10 (m / 10 ^ p), padDigits (m % 10 ^ p) p, ?_, hl, ?_⟩
    · exact splitDecimal_point _ _ (toDigits_ne_nil' _) (toDigits_isDigit _) (padDigits_isDigit _ _)
    · rw [digitsVal_append, hl, digitsVal_toDigits, digitsVal_padDigits]
      exact Nat.div_add_mod m (10 ^ p)

/-! ## error of the printed value -/

theorem absRat_le_of (x c : Rat) (h1 : -c ≤ x) (h2 : x ≤ c) : absRat x ≤ c := by
  unfold absRat; split <;> linarith

theorem absRat_of_nonneg (x : Rat) (h : 0 ≤ x) : absRat x = x := by
  unfold absRat; rw [if_neg (not_lt.2 h)]

theorem absRat_nonneg (x : Rat) : 0 ≤ absRat x := by
  unfold absRat; split <;> linarith

/-- a non-negative rational as the quotient of its (natural) numerator and denominator. -/
theorem rat_eq_natAbs_div (q : Rat) (hq : 0 ≤ q) : q = (q.num.natAbs : Rat) / (q.den : Rat) := by
  have h1 : ((q.num.natAbs : Int) : Rat) = (q.num : Rat) := by
    rw [Int.natAbs_of_nonneg (Rat.num_nonneg.2 hq)]
  rw [← Int.cast_natCast, h1, Rat.num_div_den]

theorem rat_den_pos (q : Rat) : (0 : Rat) < (q.den : Rat) := by exact_mod_cast q.den_pos

theorem scaled_error (M N D T : Nat) (hD : 0 < D) (hT : 0 < T)
    (h1 : 2 * (M * D) ≤ 2 * (N * T) + D) (h2 : 2 * (N * T) ≤ 2 * (M * D) + D) :
    absRat ((M : Rat) / (T : Rat) - (N : Rat) / (D : Rat)) ≤ 1 / (2 * (T : Rat)) := by
  have hD' : (0 : Rat) < (D : Rat) := by exact_mod_cast hD
  have hT' : (0 : Rat) < (T : Rat) := by exact_mod_cast hT
  have h1' : (2 * ((M : Rat) * D) : Rat) ≤ 2 * ((N : Rat) * T) + D := by exact_mod_cast h1
  have h2' : (2 * ((N : Rat) * T) : Rat) ≤ 2 * ((M : Rat) * D) + D := by exact_mod_cast h2
  have hc : (0 : Rat) ≤ 1 / (2 * (T : Rat) * D) := le_of_lt (one_div_pos.2 (mul_pos (mul_pos two_pos hT') hD'))
  have key : (M : Rat) / T - (N : Rat) / D = (2 * ((M : Rat) * D) - 2 * ((N : Rat) * T)) * (1 / (2 * (T : Rat) * D)) := by
    field_simp
  have key2 : 1 / (2 * (T : Rat)) = (D : Rat) * (1 / (2 * (T : Rat) * D)) := by
    field_simp
  rw [key, key2]
  apply absRat_le_of
  · rw [← neg_mul]
    exact mul_le_mul_of_nonneg_right (by linarith) hc
  · exact mul_le_mul_of_nonneg_right (by linarith) hc

theorem roundHE_error (q : Rat) (hq : 0 ≤ q) (p : Nat) :
    absRat ((roundHE (q.num.natAbs * 10 ^ p) q.den : Rat) / ((10 ^ p : Nat) : Rat) - q)
      ≤ 1 / (2 * ((10 ^ p : Nat) : Rat)) := by
  have hb := roundHE_bounds (q.num.natAbs * 10 ^ p) q.den q.den_pos
  have := scaled_error (roundHE (q.num.natAbs * 10 ^ p) q.den) q.num.natAbs q.den (10 ^ p) q.den_pos
    (Nat.pow_pos (by decide)) hb.1 hb.2
  rwa [← rat_eq_natAbs_div q hq] at this

end Sfs
