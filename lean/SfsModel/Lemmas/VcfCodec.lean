/-
Helper lemmas for Props/C12B.lean (VcfCodec).
-/
import SfsModel.Model.Container
namespace Sfs

end Sfs
