/-
Helper lemmas for Props/C12B.lean (VcfCodec): the VCF text written by `vcfEncode` is a list of `\n`-terminated lines
(the header lines of Lemmas/VcfHeader.lean, then one line per record); positions round-trip through decimal digits,
the six GT spellings of `renderGt` parse back to their classification, a record line splits at TAB into its fields.
-/
import SfsModel.Lemmas.VcfHeader
namespace Sfs

/-! ## decimal positions -/

theorem natBytes_range (n : Nat) : ∀ b ∈ natBytes n, 48 ≤ b ∧ b ≤ 57 := by
  intro b hb
  simp only [natBytes, List.mem_map] at hb
  obtain ⟨c, hc, rfl⟩ := hb
  have h : c.isDigit = true := Nat.isDigit_of_mem_toDigits (by decide) (by decide) hc
  simp only [Char.isDigit, Bool.and_eq_true, decide_eq_true_eq] at h
  have h1 : '0'.val ≤ c.val := h.1
  have h2 : c.val ≤ '9'.val := h.2
  rw [UInt32.le_iff_toNat_le] at h1 h2
  exact ⟨h1, h2⟩

theorem natBytes_ne_nil (n : Nat) : natBytes n ≠ [] := by
  simp [natBytes, Nat.toDigits_ne_nil]

theorem bytesNat_natBytes (n : Nat) : bytesNat (natBytes n) = some n := by
  have hv : (Nat.toDigits 10 n).foldl (fun acc c => 10 * acc + (c.toNat - 48)) 0 = n :=
    Nat.ofDigitChars_toDigits (b := 10) (by decide) (by decide)
  have hne : (natBytes n).isEmpty = false := by
    cases h : natBytes n with
    | nil => exact absurd h (natBytes_ne_nil n)
    | cons _ _ => rfl
  have hall : (natBytes n).all (fun b => decide (48 ≤ b ∧ b ≤ 57)) = true := by
    simp only [List.all_eq_true, decide_eq_true_eq]
    exact natBytes_range n
  have hf : (natBytes n).foldl (fun acc b => 10 * acc + (b - 48)) 0 = n := by
    rw [natBytes, List.foldl_map]; exact hv
  unfold bytesNat
  simp only [hne, hall, hf]
  simp

theorem posNat_of_no_plus (l : List Nat) (h : 43 ∉ l) :
    posNat l = match bytesNat l with
      | some n => if n < 2 ^ 64 then some n else none
      | none => none := by
  unfold posNat
  split
  · rename_i r
    exact absurd (by simp) h
  · rfl

theorem posNat_natBytes (n : Nat) (hn : n < 2 ^ 64) : posNat (natBytes n) = some n := by
  have h43 : 43 ∉ natBytes n := fun hb => by have := natBytes_range n 43 hb; omega
  rw [posNat_of_no_plus _ h43, bytesNat_natBytes]
  simp [hn]

/-! ## genotype spellings -/

theorem renderGt_cases (g : GtRes) (h : WfGt g) :
    (g = .genotype 0 ∧ renderGt g = [48, 47, 48]) ∨ (g = .genotype 1 ∧ renderGt g = [48, 47, 49]) ∨
    (g = .genotype 2 ∧ renderGt g = [49, 47, 49]) ∨ (g = .skipped .missing ∧ renderGt g = [46, 47, 46]) ∨
    (g = .skipped .multiallelic ∧ renderGt g = [48, 47, 50]) ∨ (g = .ploidyError ∧ renderGt g = [48]) := by
  cases g with
  | genotype k =>
    have hk : k ≤ 2 := h
    match k, hk with
    | 0, _ => exact .inl ⟨rfl, by decide⟩
    | 1, _ => exact .inr (.inl ⟨rfl, by decide⟩)
    | 2, _ => exact .inr (.inr (.inl ⟨rfl, by decide⟩))
  | skipped s =>
    cases s with
    | missing => exact .inr (.inr (.inr (.inl ⟨rfl, by decide⟩)))
    | multiallelic => exact .inr (.inr (.inr (.inr (.inl ⟨rfl, by decide⟩))))
  | ploidyError => exact .inr (.inr (.inr (.inr (.inr ⟨rfl, by decide⟩))))

theorem sampleGt_renderGt (g : GtRes) (h : WfGt g) : sampleGt (some 0) (renderGt g) = some g := by
  rcases renderGt_cases g h with ⟨rfl, e⟩ | ⟨rfl, e⟩ | ⟨rfl, e⟩ | ⟨rfl, e⟩ | ⟨rfl, e⟩ | ⟨rfl, e⟩ <;> rw [e] <;> decide

theorem renderGt_bytes (g : GtRes) (h : WfGt g) : ∀ b ∈ renderGt g, b ≠ 9 ∧ b ≠ 10 ∧ b ≠ 13 := by
  rcases renderGt_cases g h with ⟨_, e⟩ | ⟨_, e⟩ | ⟨_, e⟩ | ⟨_, e⟩ | ⟨_, e⟩ | ⟨_, e⟩ <;> rw [e] <;> decide

/-! ## one record line -/

/-- the record line without its newline -/
def recLine (contig : String) (pos : Nat) (gts : List GtRes) : List Nat :=
  strBytes contig ++ [9] ++ natBytes pos ++ strBytes "\t.\tA\tC\t.\t.\t.\tGT" ++ gts.flatMap (fun g => 9 :: renderGt g)

theorem vcfEncodeRec_eq (contig : String) (pos : Nat) (gts : List GtRes) :
    vcfEncodeRec contig pos gts = recLine contig pos gts ++ [10] := rfl

theorem splitBytes_fields (x : List Nat) (hx : 9 ∉ x) (gts : List GtRes) (hg : ∀ g ∈ gts, WfGt g) :
    splitBytes 9 (x ++ gts.flatMap (fun g => 9 :: renderGt g)) = x :: gts.map renderGt := by
  induction gts generalizing x with
  | nil => simpa using splitBytes_single 9 x hx
  | cons g gs ih =>
    have h9 : 9 ∉ renderGt g := fun h => (renderGt_bytes g (hg g (by simp)) 9 h).1 rfl
    have e : x ++ (g :: gs).flatMap (fun g => 9 :: renderGt g) =
        x ++ 9 :: (renderGt g ++ gs.flatMap (fun g => 9 :: renderGt g)) := by
      simp [List.flatMap_cons]
    rw [e, splitBytes_append_sep 9 x _ hx, ih _ h9 (fun g' hg' => hg g' (by simp [hg']))]
    simp

theorem splitBytes_recLine (c : String) (hc : WfContig c) (p : Nat) (gts : List GtRes) (hg : ∀ g ∈ gts, WfGt g) :
    splitBytes 9 (recLine c p gts) =
      strBytes c :: natBytes p :: [46] :: [65] :: [67] :: [46] :: [46] :: [46] :: [71, 84] :: gts.map renderGt := by
  have e0 : strBytes "\t.\tA\tC\t.\t.\t.\tGT" = [9, 46, 9, 65, 9, 67, 9, 46, 9, 46, 9, 46, 9, 71, 84] := by decide
  have hc9 : 9 ∉ strBytes c := fun h => by have := wfContig_bytes hc h; omega
  have hp9 : 9 ∉ natBytes p := fun h => by have := natBytes_range p 9 h; omega
  have e : recLine c p gts = strBytes c ++ 9 :: (natBytes p ++ 9 :: ([46] ++ 9 :: ([65] ++ 9 :: ([67] ++ 9 :: ([46] ++ 9 ::
      ([46] ++ 9 :: ([46] ++ 9 :: ([71, 84] ++ gts.flatMap (fun g => 9 :: renderGt g))))))))) := by
    simp [recLine, e0]
  rw [e, splitBytes_append_sep 9 _ _ hc9, splitBytes_append_sep 9 _ _ hp9,
    splitBytes_append_sep 9 [46] _ (by decide), splitBytes_append_sep 9 [65] _ (by decide),
    splitBytes_append_sep 9 [67] _ (by decide), splitBytes_append_sep 9 [46] _ (by decide),
    splitBytes_append_sep 9 [46] _ (by decide), splitBytes_append_sep 9 [46] _ (by decide),
    splitBytes_fields [71, 84] (by decide) gts hg]

theorem mapM_sampleGt (gts : List GtRes) (hg : ∀ g ∈ gts, WfGt g) :
    (gts.map renderGt).mapM (sampleGt (some 0)) = some gts := by
  induction gts with
  | nil => rfl
  | cons g gs ih =>
    simp [List.mapM_cons, sampleGt_renderGt g (hg g (by simp)), ih (fun g' hg' => hg g' (by simp [hg']))]

theorem splitBytes58_renderGt (g : GtRes) (h : WfGt g) : splitBytes 58 (renderGt g) = [renderGt g] := by
  rcases renderGt_cases g h with ⟨_, e⟩ | ⟨_, e⟩ | ⟨_, e⟩ | ⟨_, e⟩ | ⟨_, e⟩ | ⟨_, e⟩ <;> rw [e] <;> decide

theorem contigChars_ok (c : String) (hc : WfContig c) :
    c.toList.all (fun ch => ch.isAlphanum || ch == '_' || ch == '.' || ch == '-') = true := by
  simp only [List.all_eq_true, Bool.or_eq_true, beq_iff_eq]
  intro ch hch
  rcases hc.2 ch hch with h | h | h
  · exact .inl (.inl (.inl h))
  · exact .inl (.inl (.inr h))
  · exact .inl (.inr h)

theorem parseVcfRecord_recLine (c : String) (hc : WfContig c) (p : Nat) (hp : 1 ≤ p) (hp64 : p < 2 ^ 64)
    (gts : List GtRes) (hne : gts ≠ []) (hg : ∀ g ∈ gts, WfGt g) (prev : Nat) :
    parseVcfRecord gts.length prev (recLine c p gts) = some (.gts c p gts) := by
  have hs : (gts.map renderGt).isEmpty = false := by
    cases gts with
    | nil => exact absurd rfl hne
    | cons _ _ => rfl
  have hcne : (c == "") = false := by
    simp only [beq_eq_false_iff_ne, ne_eq]; exact hc.1
  have hb1 : isBases [65] = true := by decide
  have hb2 : splitBytes 44 [67] = [[67]] := by decide
  have hb3 : isAltAllele [67] = true := by decide
  have hk0 : splitBytes 58 [71, 84] = [[71, 84]] := by decide
  have hk1 : formatKeyOk [71, 84] = true := by decide
  have hkeys : ([[71, 84]] : List (List Nat)).idxOf? (strBytes "GT") = some 0 := by decide
  have hp' : ¬ p < 1 := by omega
  have htake : List.take gts.length (List.map renderGt gts) = List.map renderGt gts :=
    List.take_of_length_le (by rw [List.length_map]; exact Nat.le_refl _)
  have hm : List.mapM (sampleGt (some 0) ∘ renderGt) gts = some gts := by
    simpa using mapM_sampleGt gts hg
  unfold parseVcfRecord
  rw [splitBytes_recLine c hc p gts hg]
  simp only [wfContig_ascii hc, hcne, contigChars_ok c hc, posNat_natBytes p hp64, hs, hk0, hkeys]
  simp [hp', hb1, hb2, hb3, hk1, hasDupEntry, htake]
  split
  · rename_i h
    obtain ⟨g, hgm, _, hl⟩ := h
    rw [splitBytes58_renderGt g (hg g hgm)] at hl
    simp at hl
  · split
    · rename_i h
      obtain ⟨g, hgm, _, y, hy, _⟩ := h
      rw [splitBytes58_renderGt g (hg g hgm)] at hy
      simp at hy
    · rw [hm]

theorem recLine_bytes (c : String) (hc : WfContig c) (p : Nat) (gts : List GtRes) (hg : ∀ g ∈ gts, WfGt g) :
    ∀ b ∈ recLine c p gts, b ≠ 10 ∧ b ≠ 13 := by
  intro b hb
  simp only [recLine, List.mem_append, List.mem_flatMap, List.mem_cons, List.not_mem_nil, or_false] at hb
  rcases hb with (((hb | hb) | hb) | hb) | ⟨g, hgm, hb | hb⟩
  · have := wfContig_bytes hc hb; omega
  · omega
  · have := natBytes_range p b hb; omega
  · revert b; decide
  · omega
  · have := renderGt_bytes g (hg g hgm) b hb; exact ⟨this.2.1, this.2.2⟩

theorem recLine_isEmpty (c : String) (hc : WfContig c) (p : Nat) (gts : List GtRes) :
    (recLine c p gts).isEmpty = false := by
  have := strBytes_ne_nil hc.1
  cases h : strBytes c with
  | nil => exact absurd h this
  | cons a t => simp [recLine, h]

/-- the record lines of a call set -/
def recLines (recs : List (String × Nat × List GtRes)) : List (List Nat) := recs.map (fun r => recLine r.1 r.2.1 r.2.2)

theorem parseVcfRecords_recLines (recs : List (String × Nat × List GtRes))
    (n : Nat) (hr : ∀ r ∈ recs, WfContig r.1 ∧ 1 ≤ r.2.1 ∧ r.2.2 ≠ [] ∧ (∀ g ∈ r.2.2, WfGt g) ∧ r.2.2.length = n)
    (hp64 : ∀ r ∈ recs, r.2.1 < 2 ^ 64) (prev : Nat) :
    parseVcfRecords n prev (recLines recs) = some (toRecs recs) := by
  induction recs generalizing prev with
  | nil => rfl
  | cons r rs ih =>
    obtain ⟨h1, h2, h3, h4, h5⟩ := hr r (by simp)
    have ih' := ih (fun r' hr' => hr r' (by simp [hr'])) (fun r' hr' => hp64 r' (by simp [hr'])) r.2.1
    have hrec := parseVcfRecord_recLine r.1 h1 r.2.1 h2 (hp64 r (by simp)) r.2.2 h3 h4 prev
    rw [h5] at hrec
    simp only [recLines, List.map_cons] at ih' ⊢
    unfold parseVcfRecords
    simp only [recLine_isEmpty r.1 h1, hrec, ih']
    simp [toRecs]

theorem vcfEncode_eq_lines (cols contigs : List String) (recs : List (String × Nat × List GtRes)) :
    vcfEncode cols contigs recs = (headerLines cols contigs ++ recLines recs).flatMap (fun l => l ++ [10]) := by
  unfold vcfEncode
  rw [headerText_eq_lines, List.flatMap_append]
  congr 1
  simp [recLines, List.flatMap_map, vcfEncodeRec_eq]

/-! ## the whole text -/

theorem vcfDecode_vcfEncode (cols contigs : List String) (recs : List (String × Nat × List GtRes))
    (h : WfCallSet cols contigs recs) :
    vcfDecode (vcfEncode cols contigs recs) = some (cols, toRecs recs) := by
  have hcw : ∀ c ∈ contigs, WfContig c := h.contigs_wf
  have hr : ∀ r ∈ recs, WfContig r.1 ∧ 1 ≤ r.2.1 ∧ r.2.2 ≠ [] ∧ (∀ g ∈ r.2.2, WfGt g) ∧ r.2.2.length = cols.length := by
    intro r hrm
    obtain ⟨h1, h2, h3, h4⟩ := h.recs_wf r hrm
    refine ⟨hcw _ h1, h2, ?_, h4, h3⟩
    intro e
    rw [e] at h3
    exact h.cols_ne (List.eq_nil_of_length_eq_zero h3.symm)
  have hlines : ∀ l ∈ headerLines cols contigs ++ recLines recs, 10 ∉ l ∧ 13 ∉ l := by
    intro l hl
    rcases List.mem_append.1 hl with hl | hl
    · exact headerLines_bytes cols contigs h.cols_wf hcw l hl
    · obtain ⟨r, hrm, rfl⟩ := List.mem_map.1 hl
      have := recLine_bytes r.1 (hr r hrm).1 r.2.1 r.2.2 (hr r hrm).2.2.2.1
      exact ⟨fun hb => (this _ hb).1 rfl, fun hb => (this _ hb).2 rfl⟩
  have h13 : (vcfEncode cols contigs recs).contains 13 = false := by
    rw [vcfEncode_eq_lines]
    simp only [List.contains_eq_mem, decide_eq_false_iff_not, List.mem_flatMap, List.mem_append, List.mem_singleton]
    rintro ⟨l, hl, hb | hb⟩
    · exact (hlines l (List.mem_append.2 hl)).2 hb
    · omega
  have hsplit : splitLines (vcfEncode cols contigs recs) = headerLines cols contigs ++ recLines recs := by
    have := splitLines_flatMap _ (fun l hl => (hlines l hl).1) []
    rw [List.append_nil, splitLines_nil, List.append_nil] at this
    rw [vcfEncode_eq_lines, this]
  unfold vcfDecode
  rw [h13, hsplit, parseVcfHeaderLines_headerLines cols contigs h.cols_ne h.cols_wf h.cols_nodup hcw h.contigs_nodup]
  simp [parseVcfRecords_recLines recs cols.length hr h.pos_fits 1]

end Sfs
