/-
Helper lemmas for C10 (weight of a site, conservation, first stopping record).
-/
import SfsModel.Model.Create
import SfsModel.Model.Cli
import SfsModel.Spec.Create
import SfsModel.Lemmas.Create
import SfsModel.Lemmas.Hyper
namespace Sfs
open Sfs.Spec

/-! ### ALT counts never exceed the called totals -/

theorem mem_selected_snd (map : List (String × Nat)) (cols : List String) (gts : List GtRes) (p : Nat × GtRes)
    (h : p ∈ selected map cols gts) : p.2 ∈ gts := by
  unfold selected at h
  obtain ⟨cg, hcg, he⟩ := List.mem_filterMap.mp h
  cases hl : lookupPop map cg.1 with
  | none => rw [hl] at he; cases he
  | some pid =>
    rw [hl] at he
    simp only [Option.map_some, Option.some.injEq] at he
    subst he
    exact (List.of_mem_zip (a := cg.1) (b := cg.2) hcg).2

theorem altOf_le_calledOf (g : GtRes) (h : ∀ k, g = .genotype k → k ≤ 2) : altOf g ≤ calledOf g := by
  cases g with
  | genotype k => simpa [altOf, calledOf] using h k rfl
  | skipped s => simp [altOf, calledOf]
  | ploidyError => simp [altOf, calledOf]

theorem popSum_mono (f g : GtRes → Nat) (j : Nat) : ∀ sel : List (Nat × GtRes),
    (∀ p ∈ sel, f p.2 ≤ g p.2) → popSum f sel j ≤ popSum g sel j
  | [], _ => by simp [popSum_nil]
  | p :: sel, h => by
    rw [popSum_cons, popSum_cons]
    have h1 := popSum_mono f g j sel (fun q hq => h q (by simp [hq]))
    have h2 := h p (by simp)
    split <;> omega

theorem popSum_alt_le_called (map : List (String × Nat)) (cols : List String) (gts : List GtRes)
    (h : ∀ k, GtRes.genotype k ∈ gts → k ≤ 2) (j : Nat) :
    popSum altOf (selected map cols gts) j ≤ popSum calledOf (selected map cols gts) j := by
  apply popSum_mono
  intro p hp
  have hm := mem_selected_snd map cols gts p hp
  exact altOf_le_calledOf p.2 (fun k e => h k (e ▸ hm))

/-- The ALT counts are a valid index of the box spanned by the called totals. -/
theorem alt_inB_totals (npop : Nat) (sel : List (Nat × GtRes))
    (h : ∀ j, popSum altOf sel j ≤ popSum calledOf sel j) :
    InB ((calledTotals npop sel).map (· + 1)) (altCounts npop sel) := by
  rw [calledTotals_eq, altCounts_eq, List.map_map]
  apply InB_range_map
  intro j _
  have := h j
  simp only [Function.comp]
  omega

theorem cons_map_succ_pred (l : List Nat) : (l.map (· + 1)).map (· - 1) = l := by
  rw [List.map_map]
  have : ((· - 1) ∘ (· + 1) : Nat → Nat) = id := by funext x; simp
  rw [this, List.map_id]

theorem cons_getD_map_succ : ∀ (s : List Nat) (j : Nat), j < s.length → (s.map (· + 1)).getD j 0 = s.getD j 0 + 1
  | [], j, h => by simp at h
  | v :: s, 0, _ => by simp
  | v :: s, j + 1, h => by simpa using cons_getD_map_succ s j (by simpa using h)

theorem cons_zipWith_le_all : ∀ (t pt : List Nat), t.length = pt.length →
    (List.zipWith (fun t m => decide (m ≤ t)) t pt).all id = true →
    ∀ j, j < pt.length → pt.getD j 0 ≤ t.getD j 0
  | [], [], _, _, j, hj => by simp at hj
  | x :: t, y :: pt, hl, h, j, hj => by
    simp only [List.zipWith_cons_cons, List.all_cons, id, Bool.and_eq_true, decide_eq_true_eq] at h
    cases j with
    | zero => simpa using h.1
    | succ j => simpa using cons_zipWith_le_all t pt (by simpa using hl) h.2 j (by simpa using hj)
  | [], _ :: _, hl, _, _, _ => by simp at hl
  | _ :: _, [], hl, _, _, _ => by simp at hl

/-! ### `siteSpec`: standard sites -/

theorem siteSpec_standard (cfg : SiteCfg) (gts : List GtRes) (c : List Nat)
    (h : siteSpec cfg gts = some (.standard c)) :
    c = altCounts (numPops cfg.map) (selected cfg.map cfg.cols gts) ∧
    (cfg.projectTo = none ∨
      cfg.projectTo = some (calledTotals (numPops cfg.map) (selected cfg.map cfg.cols gts))) := by
  unfold siteSpec at h
  simp only at h
  split at h
  · cases h
  · cases hq : cfg.projectTo with
    | none =>
      simp only [hq] at h
      split at h
      · injection h with h; injection h with h
        exact ⟨h.symm, Or.inl rfl⟩
      · cases h
    | some pt =>
      simp only [hq] at h
      split at h
      · rename_i he
        injection h with h; injection h with h
        exact ⟨h.symm, Or.inr (by rw [he])⟩
      · split at h <;> cases h

/-! ### the weight of a counted site -/

section field
variable {α : Type} [Field α]

theorem standard_sum_one (cfg : SiteCfg) (c : List Nat) (hin : InB cfg.outShape c) :
    (contribOfSite (α := α) cfg (some (.standard c))).sum = 1 := by
  simp only [contribOfSite, hin, and_true]
  rw [list_range_sum, Finset.sum_ite_eq]
  simp [flat_lt _ _ hin]

theorem projected_sum_one [CharZero α] (cfg : SiteCfg) (pt t a : List Nat) (hq : cfg.projectTo = some pt)
    (hl : t.length = pt.length) (hin : InB (t.map (· + 1)) a)
    (hle : ∀ j, j < pt.length → pt.getD j 0 ≤ t.getD j 0) :
    (contribOfSite (α := α) cfg (some (.projected t a))).sum = 1 := by
  simp only [contribOfSite, SiteCfg.outShape, hq, Option.getD_some]
  rw [list_range_sum, sum_unflat (pt.map (· + 1)) (fun tidx => (projectValue t a pt tidx : α))]
  have := sumBox_projectValue (α := α) (t.map (· + 1)) (pt.map (· + 1)) a hin (by simp [hl])
    (by intro v hv; obtain ⟨_, _, rfl⟩ := List.mem_map.mp hv; omega)
    (by
      intro j hj
      have hj' : j < pt.length := by simpa using hj
      rw [cons_getD_map_succ _ _ hj', cons_getD_map_succ _ _ (by omega)]
      have := hle j hj'
      omega)
  rw [cons_map_succ_pred, cons_map_succ_pred] at this
  exact this

/-- Each counted record contributes total weight exactly one. -/
theorem contrib_sum_one [CharZero α] (cfg : SiteCfg) (hc : CfgOk cfg) (gts : List GtRes)
    (hl : gts.length = cfg.cols.length) (hk : ∀ k, GtRes.genotype k ∈ gts → k ≤ 2)
    (s : Site) (h : siteSpec cfg gts = some s) (hs : s ≠ .insufficient) :
    (contrib (α := α) cfg gts).sum = 1 := by
  have hnp : ∀ pt, cfg.projectTo = some pt → pt.length = numPops cfg.map := hc.2.2.2.2
  unfold contrib
  rw [h]
  cases s with
  | insufficient => exact absurd rfl hs
  | standard c =>
    apply standard_sum_one
    obtain ⟨rfl, hq | hq⟩ := siteSpec_standard cfg gts c h
    · exact alt_in_bounds cfg hc.1 hq gts hl hk
    · simp only [SiteCfg.outShape, hq]
      exact alt_inB_totals _ _ (popSum_alt_le_called cfg.map cfg.cols gts hk)
  | projected t a =>
    obtain ⟨pt, hq, rfl, rfl, _, hall⟩ := siteSpec_projected cfg gts t a h
    have hlen : (calledTotals (numPops cfg.map) (selected cfg.map cfg.cols gts)).length = pt.length := by
      rw [hnp pt hq]; simp [calledTotals_eq]
    exact projected_sum_one cfg pt _ _ hq hlen
      (alt_inB_totals _ _ (popSum_alt_le_called cfg.map cfg.cols gts hk))
      (cons_zipWith_le_all _ _ hlen hall)

theorem recContrib_sum [CharZero α] (cfg : SiteCfg) (hc : CfgOk cfg) (r : Rec) (hwf : RecWf cfg r)
    (hok : recOk cfg r = true) :
    (recContrib (α := α) cfg r).sum = if recSkipped cfg r then 0 else 1 := by
  cases r with
  | corrupt c p => simp [recOk] at hok
  | gts c p l =>
    simp only [recOk] at hok
    cases hs : siteSpec cfg l with
    | none => rw [hs] at hok; cases hok
    | some s =>
      by_cases e : s = .insufficient
      · subst e
        simp [recContrib, contrib, hs, recSkipped, contribOfSite_insufficient]
      · have hsk : recSkipped cfg (.gts c p l) = false := by simp [recSkipped, hs, e]
        rw [hsk]
        simp only [recContrib, Bool.false_eq_true, if_false]
        exact contrib_sum_one cfg hc l hwf.1 hwf.2 s hs e

/-- The mass of the sum of contributions is the number of records that are not skipped. -/
theorem sumContrib_sum [CharZero α] (cfg : SiteCfg) (hc : CfgOk cfg) :
    ∀ (recs : List Rec), (∀ r ∈ recs, RecWf cfg r) → (∀ r ∈ recs, recOk cfg r = true) →
    (sumContrib (α := α) cfg recs).sum = ((recs.length - (recs.filter (recSkipped cfg)).length : Nat) : α)
  | [], _, _ => by simp [sumContrib_nil]
  | r :: rs, hwf, hok => by
    have ih := sumContrib_sum cfg hc rs (fun x hx => hwf x (by simp [hx])) (fun x hx => hok x (by simp [hx]))
    have hle := List.length_filter_le (recSkipped cfg) rs
    rw [sumContrib_cons, sum_zipWith_add _ _ (by rw [recContrib_length, sumContrib_length]), ih,
      recContrib_sum cfg hc r (hwf r (by simp)) (hok r (by simp)), List.filter_cons]
    by_cases hsk : recSkipped cfg r = true
    · simp [hsk]
    · have hsk' : recSkipped cfg r = false := by simpa using hsk
      simp only [hsk', Bool.false_eq_true, if_false, List.length_cons]
      rw [show rs.length + 1 - (rs.filter (recSkipped cfg)).length
        = (rs.length - (rs.filter (recSkipped cfg)).length) + 1 by omega]
      push_cast
      exact add_comm _ _

end field

/-! ### the first stopping record -/

/-- The first record at which a run must stop (the definition the C10 statements use). -/
def firstStopL (cfg : SiteCfg) (strict : Bool) : List Rec → Option RunErr
  | [] => none
  | .corrupt c p :: _ => some (.genotypeError c p)
  | .gts c p l :: rs =>
    match siteSpec cfg l with
    | none => some (.genotypeError c p)
    | some .insufficient => if strict then some (.strict c p) else firstStopL cfg strict rs
    | some _ => firstStopL cfg strict rs

/-- No stopping record: every record is digestible, and in strict mode none is skipped. -/
theorem firstStopL_none (cfg : SiteCfg) (strict : Bool) : ∀ recs : List Rec, firstStopL cfg strict recs = none →
    (∀ r ∈ recs, recOk cfg r = true) ∧ (strict = true → ∀ r ∈ recs, recSkipped cfg r = false)
  | [], _ => by simp
  | .corrupt c p :: rs, h => by simp [firstStopL] at h
  | .gts c p l :: rs, h => by
    simp only [firstStopL] at h
    cases hs : siteSpec cfg l with
    | none => rw [hs] at h; cases h
    | some s =>
      rw [hs] at h
      have hok : recOk cfg (.gts c p l) = true := by simp [recOk, hs]
      cases s with
      | insufficient =>
        simp only at h
        cases strict with
        | true => simp at h
        | false =>
          simp only [Bool.false_eq_true, if_false] at h
          obtain ⟨ih1, _⟩ := firstStopL_none cfg false rs h
          refine ⟨?_, fun hh => by cases hh⟩
          intro r hr
          rcases List.mem_cons.mp hr with rfl | hr
          · exact hok
          · exact ih1 r hr
      | standard counts =>
        simp only at h
        obtain ⟨ih1, ih2⟩ := firstStopL_none cfg strict rs h
        refine ⟨?_, ?_⟩
        · intro r hr
          rcases List.mem_cons.mp hr with rfl | hr
          · exact hok
          · exact ih1 r hr
        · intro hst r hr
          rcases List.mem_cons.mp hr with rfl | hr
          · simp [recSkipped, hs]
          · exact ih2 hst r hr
      | projected totals counts =>
        simp only at h
        obtain ⟨ih1, ih2⟩ := firstStopL_none cfg strict rs h
        refine ⟨?_, ?_⟩
        · intro r hr
          rcases List.mem_cons.mp hr with rfl | hr
          · exact hok
          · exact ih1 r hr
        · intro hst r hr
          rcases List.mem_cons.mp hr with rfl | hr
          · simp [recSkipped, hs]
          · exact ih2 hst r hr

section field
variable {α : Type} [Field α]

/-- A ploidy error in a selected column stops the run with a genotype error naming the record. -/
theorem runStep_none (cfg : SiteCfg) (hpt : ∀ pt, cfg.projectTo = some pt → pt.length = numPops cfg.map)
    (strict : Bool) (st : RunSt α) (hinv : RunInv cfg st) (c : String) (p : Nat) (l : List GtRes)
    (h : siteSpec cfg l = none) :
    runStep cfg strict st (.gts c p l) = .error (.genotypeError c p) := by
  have e := readSite_eq_spec cfg hpt st.site hinv.2.1 hinv.2.2 l
  simp only [runStep]
  generalize readSite cfg st.site l = q at e
  obtain ⟨o, s'⟩ := q
  simp only at e
  subst e
  rw [h]

/-- In strict mode a skipped record stops the run with the strict error naming the record. -/
theorem runStep_strict (cfg : SiteCfg) (hpt : ∀ pt, cfg.projectTo = some pt → pt.length = numPops cfg.map)
    (st : RunSt α) (hinv : RunInv cfg st) (c : String) (p : Nat) (l : List GtRes)
    (h : siteSpec cfg l = some .insufficient) :
    runStep cfg true st (.gts c p l) = .error (.strict c p) := by
  have e := readSite_eq_spec cfg hpt st.site hinv.2.1 hinv.2.2 l
  simp only [runStep]
  generalize readSite cfg st.site l = q at e
  obtain ⟨o, s'⟩ := q
  simp only at e
  subst e
  rw [h]
  rfl

/-- From any consistent state the loop fails with the error of the first stopping record. -/
theorem runLoop_firstStop (cfg : SiteCfg) (hpt : ∀ pt, cfg.projectTo = some pt → pt.length = numPops cfg.map)
    (strict : Bool) : ∀ (recs : List Rec) (st : RunSt α), RunInv cfg st →
    ∀ e, firstStopL cfg strict recs = some e → runLoop cfg strict st recs = .error e
  | [], _, _, e, h => by simp [firstStopL] at h
  | .corrupt c p :: rs, st, _, e, h => by
    simp only [firstStopL, Option.some.injEq] at h
    subst h
    simp only [runLoop, runStep]
  | .gts c p l :: rs, st, hinv, e, h => by
    simp only [firstStopL] at h
    have hcont : recOk cfg (.gts c p l) = true → (strict = true → recSkipped cfg (.gts c p l) = false) →
        firstStopL cfg strict rs = some e → runLoop cfg strict st (.gts c p l :: rs) = .error e := by
      intro hok hstr hrest
      obtain ⟨st1, e1, inv1, _⟩ := runStep_spec cfg hpt strict st hinv (.gts c p l) hok hstr
      simp only [runLoop, e1]
      exact runLoop_firstStop cfg hpt strict rs st1 inv1 e hrest
    cases hs : siteSpec cfg l with
    | none =>
      rw [hs] at h
      simp only [Option.some.injEq] at h
      subst h
      simp only [runLoop, runStep_none cfg hpt strict st hinv c p l hs]
    | some s =>
      rw [hs] at h
      have hok : recOk cfg (.gts c p l) = true := by simp [recOk, hs]
      cases s with
      | insufficient =>
        simp only at h
        cases strict with
        | true =>
          simp only [if_true, Option.some.injEq] at h
          subst h
          simp only [runLoop, runStep_strict cfg hpt st hinv c p l hs]
        | false =>
          simp only [Bool.false_eq_true, if_false] at h
          exact hcont hok (fun hh => by cases hh) h
      | standard counts =>
        simp only at h
        exact hcont hok (fun _ => by simp [recSkipped, hs]) h
      | projected totals counts =>
        simp only at h
        exact hcont hok (fun _ => by simp [recSkipped, hs]) h

/-- `createRun` in terms of the first stopping record: its error, or the closed form of the result. -/
theorem createRun_firstStop (cfg : SiteCfg) (hpt : ∀ pt, cfg.projectTo = some pt → pt.length = numPops cfg.map)
    (strict : Bool) (recs : List Rec) :
    (∀ e, firstStopL cfg strict recs = some e → createRun (α := α) cfg strict recs = .error e) ∧
    (firstStopL cfg strict recs = none →
      createRun (α := α) cfg strict recs
        = .ok (sumContrib cfg recs, recs.length, (recs.filter (recSkipped cfg)).length)) := by
  refine ⟨?_, ?_⟩
  · intro e h
    simp only [createRun, runLoop_firstStop cfg hpt strict recs _ (runInv_init cfg) e h]
  · intro h
    obtain ⟨h1, h2⟩ := firstStopL_none cfg strict recs h
    exact createRun_spec cfg hpt strict recs h1 h2

/-- No stopping record in strict mode: the non-strict run gives the same result, and nothing is skipped. -/
theorem createRun_strict_none (cfg : SiteCfg) (hpt : ∀ pt, cfg.projectTo = some pt → pt.length = numPops cfg.map)
    (recs : List Rec) (h : firstStopL cfg true recs = none) :
    createRun (α := α) cfg true recs = createRun (α := α) cfg false recs ∧
    createRun (α := α) cfg false recs = .ok (sumContrib cfg recs, recs.length, 0) := by
  obtain ⟨h1, h2⟩ := firstStopL_none cfg true recs h
  have hk : (recs.filter (recSkipped cfg)).length = 0 := by
    rw [List.length_eq_zero_iff, List.filter_eq_nil_iff]
    intro r hr
    simp [h2 rfl r hr]
  have e1 := createRun_spec (α := α) cfg hpt true recs h1 h2
  have e2 := createRun_spec (α := α) cfg hpt false recs h1 (fun hh => by cases hh)
  rw [hk] at e1 e2
  exact ⟨e1.trans e2.symm, e2⟩

/-- A successful non-strict run: the closed form, and every record was digestible. -/
theorem createRun_ok_inv (cfg : SiteCfg) (hpt : ∀ pt, cfg.projectTo = some pt → pt.length = numPops cfg.map)
    (strict : Bool) (recs : List Rec) (res : List α × Nat × Nat)
    (h : createRun (α := α) cfg strict recs = .ok res) :
    (∀ r ∈ recs, recOk cfg r = true) ∧
    res = (sumContrib cfg recs, recs.length, (recs.filter (recSkipped cfg)).length) := by
  obtain ⟨hA, hB⟩ := createRun_firstStop (α := α) cfg hpt strict recs
  cases hf : firstStopL cfg strict recs with
  | some e => rw [hA e hf] at h; cases h
  | none =>
    rw [hB hf] at h
    exact ⟨(firstStopL_none cfg strict recs hf).1, (Except.ok.inj h).symm⟩

end field

/-! ### the text writer never writes nothing -/

theorem writeText_ne_nil (shape : List Nat) (bits : List Nat) (p : Nat) : writeText shape bits p ≠ [] := by
  unfold writeText
  intro h
  have := congrArg List.length h
  simp at this

end Sfs
