/-
Helper lemmas for Props/C06C.lean.
-/
import SfsModel.Model.Stat
namespace Sfs

/-! ## `List.mapM` in `Except` -/

/-- a successful `mapM` is the plain `map` of any function that agrees with the successes -/
theorem mapM_except_eq_map {β γ ε : Type} (f : β → Except ε γ) (g : β → γ) (hg : ∀ b v, f b = .ok v → g b = v) :
    ∀ (l : List β) (vs : List γ), l.mapM f = .ok vs → vs = l.map g
  | [], vs, h => by
    simp only [List.mapM_nil, pure, Except.pure, Except.ok.injEq] at h
    simp [← h]
  | b :: l, vs, h => by
    rw [List.mapM_cons] at h
    cases hb : f b with
    | error e => simp [hb, bind, Except.bind] at h
    | ok v =>
      cases hl : l.mapM f with
      | error e => simp [hb, hl, bind, Except.bind] at h
      | ok vs' =>
        simp only [hb, hl, bind, Except.bind, pure, Except.pure, Except.ok.injEq] at h
        rw [← h, List.map_cons, hg b v hb, ← mapM_except_eq_map f g hg l vs' hl]

/-- a successful `mapM` succeeded on every element -/
theorem mapM_except_ok_mem {β γ ε : Type} (f : β → Except ε γ) :
    ∀ (l : List β) (vs : List γ), l.mapM f = .ok vs → ∀ b ∈ l, ∃ v, f b = .ok v
  | [], _, _ => by simp
  | b :: l, vs, h => by
    rw [List.mapM_cons] at h
    cases hb : f b with
    | error e => simp [hb, bind, Except.bind] at h
    | ok v =>
      cases hl : l.mapM f with
      | error e => simp [hb, hl, bind, Except.bind] at h
      | ok vs' =>
        intro b' hb'
        rcases List.mem_cons.mp hb' with rfl | hm
        · exact ⟨v, hb⟩
        · exact mapM_except_ok_mem f l vs' hl b' hm

/-- `mapM` succeeds when every element does -/
theorem mapM_except_ok_of_forall {β γ ε : Type} (f : β → Except ε γ) :
    ∀ (l : List β), (∀ b ∈ l, ∃ v, f b = .ok v) → ∃ vs, l.mapM f = .ok vs
  | [], _ => ⟨[], by simp [pure, Except.pure]⟩
  | b :: l, h => by
    obtain ⟨v, hv⟩ := h b (by simp)
    obtain ⟨vs, hvs⟩ := mapM_except_ok_of_forall f l (fun b' hb' => h b' (by simp [hb']))
    exact ⟨v :: vs, by rw [List.mapM_cons]; simp [hv, hvs, bind, Except.bind, pure, Except.pure]⟩

theorem zip_map_const {β γ : Type} (g : β → γ) (p : Nat) (l : List β) :
    (l.map g).zip (l.map (fun _ => p)) = l.map (fun k => (g k, p)) := by
  induction l with
  | nil => rfl
  | cons b l ih => simp [ih]

/-! ## `statCli` -/

section
variable {α : Type} [Add α] [Sub α] [Mul α] [Div α] [NatCast α] [OfNat α 0] [OfNat α 1]

/-- the value of a statistic, with a placeholder where the computation fails -/
def statValOf (a : Arr α) (k : StatKind) : StatVal α :=
  match statCalc k a with
  | .ok v => v
  | .error _ => .nan

theorem statValOf_of_ok (a : Arr α) (k : StatKind) (v : StatVal α) (h : statCalc k a = .ok v) : statValOf a k = v := by
  simp [statValOf, h]

/-- the header cell of `statCli` -/
def statHdr (kinds : List StatKind) (header : Bool) (delim : Char) : Option String :=
  if header then some (String.intercalate (String.singleton delim) (kinds.map StatKind.headerName)) else none

/-- Anatomy of a successful invocation: every statistic succeeded, the row is the list of their values zipped with as many
    precisions, the header is the one requested. -/
theorem statCli_done (kinds : List StatKind) (ps : List Nat) (header : Bool) (delim : Char) (a : Arr α)
    (hdr : Option String) (row : List (StatVal α × Nat)) (h : statCli kinds ps header delim a = .done hdr row) :
    ∃ ps' : List Nat, ps'.length = kinds.length ∧ (∀ p, ps = [p] → ps' = kinds.map (fun _ => p)) ∧
      (∀ k ∈ kinds, ∃ v, statCalc k a = .ok v) ∧
      row = (kinds.map (statValOf a)).zip ps' ∧ hdr = statHdr kinds header delim := by
  unfold statCli at h
  simp only at h
  split at h
  · exact absurd h (by simp)
  · rename_i ps' hps
    split at h
    · exact absurd h (by simp)
    · rename_i vs hvs
      simp only [StatCliOut.done.injEq] at h
      have hmap := mapM_except_eq_map (fun k => statCalc k a) (statValOf a) (statValOf_of_ok a) kinds vs hvs
      refine ⟨ps', ?_, ?_, mapM_except_ok_mem _ kinds vs hvs, ?_, ?_⟩
      · split at hps
        · simp only [Option.some.injEq] at hps; simp [← hps]
        · split at hps
          · simp only [Option.some.injEq] at hps; rw [← hps]; assumption
          · exact absurd hps (by simp)
      · intro p hp
        subst hp
        simp only [Option.some.injEq] at hps
        exact hps.symm
      · rw [← h.2, hmap]
      · rw [← h.1]; rfl

/-- with a single common precision and no header, a successful invocation is determined by the values -/
theorem statCli_single (kinds : List StatKind) (p : Nat) (delim : Char) (a : Arr α)
    (h : ∀ k ∈ kinds, ∃ v, statCalc k a = .ok v) :
    statCli kinds [p] false delim a = .done none (kinds.map (fun k => (statValOf a k, p))) := by
  obtain ⟨vs, hvs⟩ := mapM_except_ok_of_forall (fun k => statCalc k a) kinds h
  have hmap := mapM_except_eq_map (fun k => statCalc k a) (statValOf a) (statValOf_of_ok a) kinds vs hvs
  unfold statCli
  simp only [hvs, hmap, zip_map_const]
  simp

/-- column `i` of a successful row -/
theorem statCli_done_col (kinds : List StatKind) (ps : List Nat) (header : Bool) (delim : Char) (a : Arr α)
    (hdr : Option String) (row : List (StatVal α × Nat)) (h : statCli kinds ps header delim a = .done hdr row)
    (i : Nat) (hi : i < kinds.length) :
    row.length = kinds.length ∧ statCalc kinds[i] a = .ok (statValOf a kinds[i]) ∧
      (row[i]?).map (·.1) = some (statValOf a kinds[i]) := by
  obtain ⟨ps', hlen, _, hok, hrow, _⟩ := statCli_done kinds ps header delim a hdr row h
  refine ⟨by simp [hrow, hlen], ?_, ?_⟩
  · obtain ⟨v, hv⟩ := hok kinds[i] (List.getElem_mem hi)
    rw [statValOf_of_ok a _ v hv, hv]
  · have hi' : i < ps'.length := by omega
    simp [hrow, List.getElem?_zip_eq_some, List.getElem?_eq_getElem hi, List.getElem?_eq_getElem hi']

end

end Sfs
