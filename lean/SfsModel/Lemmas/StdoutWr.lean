/-
Helper lemmas for Props/C18C.lean (stdout line writer).
-/
import SfsModel.Model.Stdout
import SfsModel.Lemmas.IoSchedule
namespace Sfs

/-! ## `write_all` on the descriptor -/

theorem Wr.writeAllOf_none (w : Wr) (b : List Nat) (hf : w.failAt = none) :
    ∃ w', w.writeAllOf b = .ok w' ∧ w'.out = w.out ++ b ∧ w'.failAt = none :=
  Wr.writeAll_none b.length b w hf (Nat.le_refl _)

theorem Wr.writeAllOf_fail (w : Wr) (b : List Nat) (k : Nat) (hf : w.failAt = some k) :
    w.writeAllOf b = .error .io ∨
    (b.length ≤ k ∧ ∃ w', w.writeAllOf b = .ok w' ∧ w'.failAt = some (k - b.length)) := by
  rcases Wr.writeAll_fail b.length b w k hf (Nat.le_refl _) with ⟨_, he⟩ | h
  · exact Or.inl he
  · exact Or.inr h

/-! ## splitting after the last line feed -/

theorem splitLastNewline_some (b lines tail : List Nat) (h : splitLastNewline b = some (lines, tail)) :
    lines ++ tail = b := by
  unfold splitLastNewline at h
  simp only at h
  split at h
  · cases h
  · cases h
    have key : ∀ d t : List Nat, b = d ++ t → b.take (b.length - t.length) ++ t = b := by
      intro d t h; subst h; simp
    refine key (b.reverse.dropWhile (· ≠ 10)).reverse _ ?_
    rw [← List.reverse_append, List.takeWhile_append_dropWhile, List.reverse_reverse]

theorem List.takeWhile_of_all {α} (p : α → Bool) (l : List α) (h : ∀ x ∈ l, p x = true) : l.takeWhile p = l := by
  induction l with
  | nil => rfl
  | cons x xs ih =>
    rw [List.takeWhile_cons, if_pos (h x (by simp)), ih (fun y hy => h y (by simp [hy]))]

theorem splitLastNewline_none (b : List Nat) (h : 10 ∉ b) : splitLastNewline b = none := by
  unfold splitLastNewline
  have ht : b.reverse.takeWhile (· ≠ 10) = b.reverse := by
    apply List.takeWhile_of_all
    intro x hx
    have hx' : x ∈ b := by simpa using hx
    have : x ≠ 10 := fun he => h (he ▸ hx')
    simpa using this
  simp only [ht, List.reverse_reverse, if_true]

/-! ## the line writer over a descriptor that never fails -/

theorem LineWr.flushBuf_none (l : LineWr) (hf : l.inner.failAt = none) :
    ∃ l', l.flushBuf = .ok l' ∧ l'.inner.failAt = none ∧ l'.buf = [] ∧ l'.inner.out = l.inner.out ++ l.buf := by
  unfold LineWr.flushBuf
  by_cases hb : l.buf.isEmpty = true
  · rw [if_pos hb]
    have : l.buf = [] := by simpa using hb
    exact ⟨l, rfl, hf, this, by simp [this]⟩
  · rw [if_neg hb]
    obtain ⟨w', he, ho, hf'⟩ := Wr.writeAllOf_none l.inner l.buf hf
    rw [he]
    exact ⟨_, rfl, hf', rfl, ho⟩

theorem LineWr.bufWriteAll_none (l : LineWr) (b : List Nat) (hf : l.inner.failAt = none) :
    ∃ l', l.bufWriteAll b = .ok l' ∧ l'.inner.failAt = none ∧
      l'.inner.out ++ l'.buf = l.inner.out ++ l.buf ++ b := by
  unfold LineWr.bufWriteAll
  have h1 : ∃ l1, (if l.buf.length + b.length > LineWr.cap then l.flushBuf else .ok l) = .ok l1 ∧
      l1.inner.failAt = none ∧ l1.inner.out ++ l1.buf = l.inner.out ++ l.buf ∧
      (b.length ≥ LineWr.cap → l1.buf = []) := by
    by_cases hc : l.buf.length + b.length > LineWr.cap
    · rw [if_pos hc]
      obtain ⟨l1, he, hf1, hb1, ho1⟩ := LineWr.flushBuf_none l hf
      exact ⟨l1, he, hf1, by rw [hb1, ho1]; simp, fun _ => hb1⟩
    · rw [if_neg hc]
      refine ⟨l, rfl, hf, rfl, fun hge => ?_⟩
      have : l.buf.length = 0 := by omega
      exact List.eq_nil_of_length_eq_zero this
  obtain ⟨l1, he1, hf1, ho1, hb1⟩ := h1
  rw [he1]
  dsimp only
  by_cases hge : b.length ≥ LineWr.cap
  · rw [if_pos hge]
    obtain ⟨w', he, ho, hf'⟩ := Wr.writeAllOf_none l1.inner b hf1
    rw [he]
    refine ⟨_, rfl, hf', ?_⟩
    dsimp only
    rw [ho, ← ho1, hb1 hge]
    simp
  · rw [if_neg hge]
    refine ⟨_, rfl, hf1, ?_⟩
    dsimp only
    rw [← List.append_assoc, ho1]

theorem LineWr.writeAll_none (l : LineWr) (b : List Nat) (hf : l.inner.failAt = none) :
    ∃ l', l.writeAll b = .ok l' ∧ l'.inner.failAt = none ∧
      l'.inner.out ++ l'.buf = l.inner.out ++ l.buf ++ b := by
  unfold LineWr.writeAll
  cases hs : splitLastNewline b with
  | none =>
    dsimp only
    have h1 : ∃ l1, (if l.buf.getLast? = some 10 then l.flushBuf else .ok l) = .ok l1 ∧
        l1.inner.failAt = none ∧ l1.inner.out ++ l1.buf = l.inner.out ++ l.buf := by
      by_cases hc : l.buf.getLast? = some 10
      · rw [if_pos hc]
        obtain ⟨l1, he, hf1, hb1, ho1⟩ := LineWr.flushBuf_none l hf
        exact ⟨l1, he, hf1, by rw [hb1, ho1]; simp⟩
      · rw [if_neg hc]
        exact ⟨l, rfl, hf, rfl⟩
    obtain ⟨l1, he1, hf1, ho1⟩ := h1
    rw [he1]
    dsimp only
    obtain ⟨l2, he2, hf2, ho2⟩ := LineWr.bufWriteAll_none l1 b hf1
    exact ⟨l2, he2, hf2, by rw [ho2, ho1]⟩
  | some lt =>
    obtain ⟨lines, tail⟩ := lt
    have hb := splitLastNewline_some b lines tail hs
    dsimp only
    generalize hh : (if l.buf.isEmpty = true then _ else _ : Except IoErr LineWr) = handed
    have h1 : ∃ l1, handed = .ok l1 ∧
        l1.inner.failAt = none ∧ l1.inner.out ++ l1.buf = l.inner.out ++ l.buf ++ lines := by
      rw [← hh]
      by_cases hc : l.buf.isEmpty = true
      · rw [if_pos hc]
        have hnil : l.buf = [] := by simpa using hc
        obtain ⟨w', he, ho, hf'⟩ := Wr.writeAllOf_none l.inner lines hf
        rw [he]
        refine ⟨_, rfl, hf', ?_⟩
        dsimp only
        rw [ho, hnil]
        simp
      · rw [if_neg hc]
        obtain ⟨l2, he2, hf2, ho2⟩ := LineWr.bufWriteAll_none l lines hf
        rw [he2]
        dsimp only
        obtain ⟨l3, he3, hf3, hb3, ho3⟩ := LineWr.flushBuf_none l2 hf2
        exact ⟨l3, he3, hf3, by rw [hb3, ho3, ho2]; simp⟩
    obtain ⟨l1, he1, hf1, ho1⟩ := h1
    rw [he1]
    dsimp only
    obtain ⟨l2, he2, hf2, ho2⟩ := LineWr.bufWriteAll_none l1 tail hf1
    refine ⟨l2, he2, hf2, ?_⟩
    rw [ho2, ho1, ← hb]
    simp

theorem LineWr.writePieces_none (ps : List (List Nat)) (l : LineWr) (hf : l.inner.failAt = none) :
    ∃ l', LineWr.writePieces ps l = .ok l' ∧ l'.inner.failAt = none ∧
      l'.inner.out ++ l'.buf = l.inner.out ++ l.buf ++ ps.flatten := by
  induction ps generalizing l with
  | nil => exact ⟨l, rfl, hf, by simp⟩
  | cons p ps ih =>
    obtain ⟨l1, he1, hf1, ho1⟩ := LineWr.writeAll_none l p hf
    obtain ⟨l2, he2, hf2, ho2⟩ := ih l1 hf1
    refine ⟨l2, ?_, hf2, ?_⟩
    · rw [LineWr.writePieces, he1]; exact he2
    · rw [ho2, ho1, List.flatten_cons]; simp

theorem stdoutWrite_none (pieces : List (List Nat)) (w : Wr) (hf : w.failAt = none) :
    ∃ w', stdoutWrite pieces w = .ok w' ∧ w'.out = w.out ++ pieces.flatten ∧ w'.failAt = none := by
  unfold stdoutWrite
  obtain ⟨l1, he1, hf1, ho1⟩ := LineWr.writePieces_none pieces { inner := w } hf
  rw [he1]
  dsimp only
  obtain ⟨l2, he2, hf2, hb2, ho2⟩ := LineWr.flushBuf_none l1 hf1
  rw [he2]
  refine ⟨_, rfl, ?_, hf2⟩
  rw [ho2, ho1]
  simp

/-! ## the line writer over a descriptor failing after `j` more bytes: every byte handed on is counted -/

theorem LineWr.flushBuf_fail (l : LineWr) (j : Nat) (hf : l.inner.failAt = some j) :
    l.flushBuf = .error .io ∨
    ∃ l', l.flushBuf = .ok l' ∧ l'.buf = [] ∧ l.buf.length ≤ j ∧ l'.inner.failAt = some (j - l.buf.length) := by
  unfold LineWr.flushBuf
  by_cases hb : l.buf.isEmpty = true
  · rw [if_pos hb]
    have : l.buf = [] := by simpa using hb
    exact Or.inr ⟨l, rfl, this, by simp [this], by simp [this, hf]⟩
  · rw [if_neg hb]
    rcases Wr.writeAllOf_fail l.inner l.buf j hf with he | ⟨hle, w', he, hf'⟩
    · rw [he]; exact Or.inl rfl
    · rw [he]
      exact Or.inr ⟨_, rfl, rfl, hle, hf'⟩

theorem LineWr.bufWriteAll_fail (l : LineWr) (b : List Nat) (j : Nat) (hf : l.inner.failAt = some j) :
    l.bufWriteAll b = .error .io ∨
    ∃ l' j', l.bufWriteAll b = .ok l' ∧ l'.inner.failAt = some j' ∧
      j' + l.buf.length + b.length = j + l'.buf.length := by
  unfold LineWr.bufWriteAll
  have h1 : (if l.buf.length + b.length > LineWr.cap then l.flushBuf else .ok l) = .error .io ∨
      ∃ l1 j1, (if l.buf.length + b.length > LineWr.cap then l.flushBuf else .ok l) = .ok l1 ∧
        l1.inner.failAt = some j1 ∧ j1 + l.buf.length = j + l1.buf.length := by
    by_cases hc : l.buf.length + b.length > LineWr.cap
    · rw [if_pos hc]
      rcases LineWr.flushBuf_fail l j hf with he | ⟨l1, he, hb1, hle, hf1⟩
      · exact Or.inl he
      · exact Or.inr ⟨l1, _, he, hf1, by rw [hb1]; simp only [List.length_nil]; omega⟩
    · rw [if_neg hc]
      exact Or.inr ⟨l, j, rfl, hf, rfl⟩
  rcases h1 with he1 | ⟨l1, j1, he1, hf1, hj1⟩
  · rw [he1]; exact Or.inl rfl
  · rw [he1]
    dsimp only
    by_cases hge : b.length ≥ LineWr.cap
    · rw [if_pos hge]
      rcases Wr.writeAllOf_fail l1.inner b j1 hf1 with he | ⟨hle, w', he, hf'⟩
      · rw [he]; exact Or.inl rfl
      · rw [he]
        refine Or.inr ⟨_, _, rfl, hf', ?_⟩
        dsimp only
        omega
    · rw [if_neg hge]
      refine Or.inr ⟨_, _, rfl, hf1, ?_⟩
      dsimp only
      rw [List.length_append]
      omega

theorem LineWr.writeAll_fail (l : LineWr) (b : List Nat) (j : Nat) (hf : l.inner.failAt = some j) :
    l.writeAll b = .error .io ∨
    ∃ l' j', l.writeAll b = .ok l' ∧ l'.inner.failAt = some j' ∧
      j' + l.buf.length + b.length = j + l'.buf.length := by
  unfold LineWr.writeAll
  cases hs : splitLastNewline b with
  | none =>
    dsimp only
    have h1 : (if l.buf.getLast? = some 10 then l.flushBuf else .ok l) = .error .io ∨
        ∃ l1 j1, (if l.buf.getLast? = some 10 then l.flushBuf else .ok l) = .ok l1 ∧
          l1.inner.failAt = some j1 ∧ j1 + l.buf.length = j + l1.buf.length := by
      by_cases hc : l.buf.getLast? = some 10
      · rw [if_pos hc]
        rcases LineWr.flushBuf_fail l j hf with he | ⟨l1, he, hb1, hle, hf1⟩
        · exact Or.inl he
        · exact Or.inr ⟨l1, _, he, hf1, by rw [hb1]; simp only [List.length_nil]; omega⟩
      · rw [if_neg hc]
        exact Or.inr ⟨l, j, rfl, hf, rfl⟩
    rcases h1 with he1 | ⟨l1, j1, he1, hf1, hj1⟩
    · rw [he1]; exact Or.inl rfl
    · rw [he1]
      dsimp only
      rcases LineWr.bufWriteAll_fail l1 b j1 hf1 with he2 | ⟨l2, j2, he2, hf2, hj2⟩
      · exact Or.inl he2
      · exact Or.inr ⟨l2, j2, he2, hf2, by omega⟩
  | some lt =>
    obtain ⟨lines, tail⟩ := lt
    have hb := splitLastNewline_some b lines tail hs
    have hlen : b.length = lines.length + tail.length := by rw [← hb, List.length_append]
    dsimp only
    generalize hh : (if l.buf.isEmpty = true then _ else _ : Except IoErr LineWr) = handed
    have h1 : handed = .error .io ∨
        ∃ l1 j1, handed = .ok l1 ∧
        l1.inner.failAt = some j1 ∧ j1 + l.buf.length + lines.length = j + l1.buf.length := by
      rw [← hh]
      by_cases hc : l.buf.isEmpty = true
      · rw [if_pos hc]
        rcases Wr.writeAllOf_fail l.inner lines j hf with he | ⟨hle, w', he, hf'⟩
        · rw [he]; exact Or.inl rfl
        · rw [he]
          refine Or.inr ⟨_, _, rfl, hf', ?_⟩
          dsimp only
          omega
      · rw [if_neg hc]
        rcases LineWr.bufWriteAll_fail l lines j hf with he2 | ⟨l2, j2, he2, hf2, hj2⟩
        · rw [he2]; exact Or.inl rfl
        · rw [he2]
          dsimp only
          rcases LineWr.flushBuf_fail l2 j2 hf2 with he3 | ⟨l3, he3, hb3, hle3, hf3⟩
          · exact Or.inl he3
          · refine Or.inr ⟨l3, _, he3, hf3, ?_⟩
            rw [hb3]; simp only [List.length_nil]; omega
    rcases h1 with he1 | ⟨l1, j1, he1, hf1, hj1⟩
    · rw [he1]; exact Or.inl rfl
    · rw [he1]
      dsimp only
      rcases LineWr.bufWriteAll_fail l1 tail j1 hf1 with he2 | ⟨l2, j2, he2, hf2, hj2⟩
      · exact Or.inl he2
      · exact Or.inr ⟨l2, j2, he2, hf2, by omega⟩

theorem LineWr.writePieces_fail (ps : List (List Nat)) (l : LineWr) (j : Nat) (hf : l.inner.failAt = some j) :
    LineWr.writePieces ps l = .error .io ∨
    ∃ l' j', LineWr.writePieces ps l = .ok l' ∧ l'.inner.failAt = some j' ∧
      j' + l.buf.length + ps.flatten.length = j + l'.buf.length := by
  induction ps generalizing l j with
  | nil => exact Or.inr ⟨l, j, rfl, hf, by simp⟩
  | cons p ps ih =>
    rw [LineWr.writePieces]
    rcases LineWr.writeAll_fail l p j hf with he1 | ⟨l1, j1, he1, hf1, hj1⟩
    · rw [he1]; exact Or.inl rfl
    · rw [he1]
      dsimp only
      rcases ih l1 j1 hf1 with he2 | ⟨l2, j2, he2, hf2, hj2⟩
      · exact Or.inl he2
      · refine Or.inr ⟨l2, j2, he2, hf2, ?_⟩
        rw [List.flatten_cons, List.length_append]
        omega

theorem stdoutWrite_fail (pieces : List (List Nat)) (w : Wr) (k : Nat) (hf : w.failAt = some k)
    (hk : k < pieces.flatten.length) : stdoutWrite pieces w = .error .io := by
  unfold stdoutWrite
  rcases LineWr.writePieces_fail pieces { inner := w } k hf with he1 | ⟨l1, j1, he1, hf1, hj1⟩
  · rw [he1]
  · rw [he1]
    dsimp only
    rcases LineWr.flushBuf_fail l1 j1 hf1 with he2 | ⟨l2, he2, hb2, hle2, hf2⟩
    · rw [he2]
    · exfalso
      simp only [List.length_nil] at hj1
      omega

/-! ## buffered bytes -/

theorem LineWr.writeAll_buffers (l : LineWr) (b : List Nat) (hnl : 10 ∉ b) (hlast : l.buf.getLast? ≠ some 10)
    (hfit : l.buf.length + b.length ≤ LineWr.cap) (hlt : b.length < LineWr.cap) :
    l.writeAll b = .ok { l with buf := l.buf ++ b } := by
  unfold LineWr.writeAll
  rw [splitLastNewline_none b hnl]
  dsimp only
  rw [if_neg hlast]
  dsimp only
  unfold LineWr.bufWriteAll
  rw [if_neg (by omega)]
  dsimp only
  rw [if_neg (by omega)]

/-! ## the pieces -/

theorem Wr.writePieces_append (ps qs : List (List Nat)) (w : Wr) :
    w.writePieces (ps ++ qs) = (match w.writePieces ps with
      | .error e => .error e
      | .ok w' => w'.writePieces qs) := by
  induction ps generalizing w with
  | nil => rfl
  | cons p ps ih =>
    simp only [List.cons_append, Wr.writePieces]
    cases w.writeAllOf p with
    | error e => rfl
    | ok w' => exact ih w'

theorem writeNpyWr_pieces (shape bits : List Nat) (w : Wr) (ps : List (List Nat)) (h : npyPieces shape bits = some ps) :
    writeNpyWr shape bits w = w.writePieces ps := by
  unfold npyPieces at h
  unfold writeNpyWr
  dsimp only at h ⊢
  by_cases hlen : (npyDict shape).length + (64 - (6 + 2 + 2 + (npyDict shape).length) % 64) < 65536
  · rw [if_pos hlen] at h
    cases h
    have := Wr.writePieces_append [npyMagic, [1, 0]]
      ([leBytes 2 ((npyDict shape).length + (64 - (6 + 2 + 2 + (npyDict shape).length) % 64)),
          asciiBytes (npyDict shape),
          List.replicate (64 - (6 + 2 + 2 + (npyDict shape).length) % 64 - 1) 32 ++ [10]] ++
        List.map (leBytes 8) bits) w
    simp only [List.cons_append, List.nil_append] at this ⊢
    rw [this]
    cases w.writePieces [npyMagic, [1, 0]] with
    | error e => rfl
    | ok w' => dsimp only; rw [if_pos hlen]
  · rw [if_neg hlen] at h
    cases h

theorem writeTextWr_pieces (shape bits : List Nat) (p : Nat) (w : Wr) :
    writeTextWr shape bits p w = w.writePieces (textPieces shape bits p) := by
  unfold writeTextWr textPieces
  cases bits <;> rfl

end Sfs
