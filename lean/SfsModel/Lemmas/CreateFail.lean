/-
Helper lemmas for Props/C18B.lean.
-/
import SfsModel.Model.Detect
import SfsModel.Lemmas.IoModel
import SfsModel.Lemmas.IoSchedule
import SfsModel.Lemmas.Detect
namespace Sfs

/-- `take(limit).read_to_end` on a failing reader: the I/O error, or a prefix with the reader still failing later
    (the failure offset has not been passed). No fuel condition is needed. -/
theorem Rd.readUpTo_fail (fuel : Nat) (r : Rd) (k : Nat) (h : Rd.Fail r k) (limit : Nat) :
    r.readUpTo fuel limit = .error .io ∨ ∃ pfx r' k', r.readUpTo fuel limit = .ok (pfx, r') ∧ Rd.Fail r' k' := by
  induction fuel generalizing r k limit with
  | zero => exact Or.inr ⟨[], r, k, by simp [Rd.readUpTo], h⟩
  | succ fuel ih =>
    cases limit with
    | zero => exact Or.inr ⟨[], r, k, by simp [Rd.readUpTo], h⟩
    | succ n =>
      unfold Rd.readUpTo
      rcases Rd.fillBuf_fail r k h with ⟨hk0, he⟩ | ⟨hkpos, r', he, hF, hd, h1⟩
      · rw [he]; exact Or.inl rfl
      · rw [he]
        have hle : r'.avail ≤ r.data.length := by have := hF.2.1; have := h.2.2; omega
        have hlen : (r.data.take r'.avail).length = r'.avail := by simp only [List.length_take]; omega
        have hnemp : (r.data.take r'.avail).isEmpty = false :=
          List.isEmpty_false_of_length_pos _ (by omega)
        simp only [hnemp, Bool.false_eq_true, if_false, hlen]
        have hF2 := Rd.consume_fail r' k (min r'.avail (n + 1)) hF (by omega)
        rcases ih (r'.consume (min r'.avail (n + 1))) _ hF2 (n + 1 - min r'.avail (n + 1)) with
          he2 | ⟨pfx, r'', k', he2, hF3⟩
        · rw [he2]; exact Or.inl rfl
        · rw [he2]; exact Or.inr ⟨_, _, _, rfl, hF3⟩

/-- the detection prefix on a failing reader. -/
theorem readPrefix_fail (r : Rd) (k : Nat) (h : Rd.Fail r k) :
    readPrefix r = .error .io ∨ ∃ pfx r' k', readPrefix r = .ok (pfx, r') ∧ Rd.Fail r' k' :=
  Rd.readUpTo_fail 65536 r k h 65536

/-- `sfs create` over a failing reader produces nothing, whatever the codecs. -/
theorem createFromRd_fail (inflate3 : List Nat → Option (List Nat)) (decode : Container → List Nat → Option CallSet)
    (a : CreateArgs) (r : Rd) (k : Nat) (h : Rd.Fail r k) : createFromRd inflate3 decode a r = none := by
  unfold createFromRd
  rcases readPrefix_fail r k h with he | ⟨pfx, r', k', he, hF⟩
  · rw [he]
  · rw [he]
    dsimp only
    cases detectContainer inflate3 pfx with
    | error e => rfl
    | ok c =>
      dsimp only
      rw [Rd.readToEnd_fail (r'.data.length + 1) r' k' hF (Nat.lt_succ_self _)]

end Sfs
