/-
Helper lemmas for C14 (StatFold): statistics as weighted sums over the flat positions, and the invariance of a
weighted sum with a mirror-symmetric weight under folding with fill zero.
-/
import SfsModel.Model.Stat
import SfsModel.Spec.Stat
import SfsModel.Lemmas.Index
import SfsModel.Lemmas.Fold
import SfsModel.Lemmas.View
import Mathlib.Algebra.Field.Basic
import Mathlib.Algebra.CharZero.Defs
import Mathlib.Algebra.BigOperators.Group.Finset.Basic
import Mathlib.Algebra.BigOperators.Group.List.Basic
import Mathlib.Algebra.BigOperators.Intervals
import Mathlib.Algebra.BigOperators.Ring.Finset
import Mathlib.Tactic.Ring
import Mathlib.Tactic.FieldSimp
import Mathlib.Tactic.Linarith
namespace Sfs
open Finset

/-! ### weighted sums over the flat positions -/

/-- `Σ_{i<n} d_i · W i` -/
def sf_wsum {α} [Field α] (n : Nat) (d : List α) (W : Nat → α) : α :=
  ∑ i ∈ range n, d.getD i 0 * W i

/-- interior indicator: the weight `w` on the cells `0 < i < n - 1`, zero on the first and last cell -/
def sf_int {α} [Field α] (n : Nat) (w : Nat → α) (i : Nat) : α :=
  if 0 < i ∧ i + 1 < n then w i else 0

theorem sf_foldZero_data {α} [Field α] [CharZero α] (a : Arr α) :
    (Spec.foldZero a).data = foldSpectrum (1/2 : α) 0 a.shape a.data := by
  simp only [Spec.foldZero, Nat.cast_ofNat]

theorem sf_foldZero_shape {α} [Field α] [CharZero α] (a : Arr α) :
    (Spec.foldZero a).shape = a.shape := rfl

theorem sf_foldZero_length {α} [Field α] [CharZero α] (a : Arr α) :
    (Spec.foldZero a).data.length = size a.shape := by
  rw [sf_foldZero_data, foldSpectrum_length]

/-- The general invariance: a mirror-symmetric weight does not see the fold. -/
theorem sf_fold_weighted {α} [Field α] [CharZero α] (shape : List Nat) (x : List α) (W : Nat → α)
    (hW : ∀ i, i < size shape → W (size shape - 1 - i) = W i) :
    sf_wsum (size shape) (foldSpectrum (1/2 : α) 0 shape x) W = sf_wsum (size shape) x W := by
  unfold sf_wsum
  rw [← fold_mass_range shape (fun i => x.getD i 0 * W i)]
  apply Finset.sum_congr rfl
  intro i hi
  have hi' : i < size shape := Finset.mem_range.mp hi
  rw [foldSpectrum_getD _ _ _ _ i hi', foldCell_cw, hW i hi']
  ring

theorem sf_foldZero_weighted {α} [Field α] [CharZero α] (a : Arr α) (W : Nat → α)
    (hW : ∀ i, i < size a.shape → W (size a.shape - 1 - i) = W i) :
    sf_wsum (size a.shape) (Spec.foldZero a).data W = sf_wsum (size a.shape) a.data W := by
  rw [sf_foldZero_data]; exact sf_fold_weighted a.shape a.data W hW

theorem sf_int_symm {α} [Field α] (n : Nat) (w : Nat → α)
    (hw : ∀ i, 0 < i → i + 1 < n → w (n - 1 - i) = w i) (i : Nat) (hi : i < n) :
    sf_int n w (n - 1 - i) = sf_int n w i := by
  unfold sf_int
  by_cases h : 0 < i ∧ i + 1 < n
  · have h' : 0 < n - 1 - i ∧ n - 1 - i + 1 < n := by omega
    rw [if_pos h, if_pos h', hw i h.1 h.2]
  · have h' : ¬ (0 < n - 1 - i ∧ n - 1 - i + 1 < n) := by omega
    rw [if_neg h, if_neg h']

theorem sf_wsum_normalize {α} [Field α] (n : Nat) (x : List α) (W : Nat → α) :
    sf_wsum n (normalize x) W = sf_wsum n x W / sumList x := by
  unfold sf_wsum
  rw [div_eq_mul_inv, Finset.sum_mul, sumList_eq_sum]
  apply Finset.sum_congr rfl
  intro i _
  rw [normalize_getD]; ring

/-! ### interior of a list, sums over it -/

theorem sf_interior_range {β} (g : Nat → β) (n : Nat) :
    interior ((List.range n).map g) = (List.range (n - 2)).map (fun i => g (i + 1)) := by
  unfold interior
  apply List.ext_getElem
  · simp; omega
  · intro i h1 h2
    simp

theorem sf_withIdx_eq {β} (d : β) (l : List β) :
    withIdx l = (List.range l.length).map (fun i => (i, l.getD i d)) := by
  unfold withIdx
  apply List.ext_getElem
  · simp
  · intro i h1 h2
    simp at h1
    simp [List.getD_eq_getElem?_getD, List.getElem?_eq_getElem h1]

theorem sf_sum_shift {α} [Field α] (n : Nat) (h : Nat → α) :
    ∑ i ∈ range (n - 2), h (i + 1) = ∑ i ∈ range n, sf_int n h i := by
  rcases n with _ | _ | m
  · simp
  · simp [sf_int]
  · rw [Finset.sum_range_succ, Finset.sum_range_succ']
    have e0 : sf_int (m + 2) h 0 = 0 := by simp [sf_int]
    have e1 : sf_int (m + 2) h (m + 1) = 0 := by simp [sf_int]
    rw [e0, e1, add_zero, add_zero]
    apply Finset.sum_congr rfl
    intro i hi
    have : i < m := Finset.mem_range.mp hi
    have hc : 0 < i + 1 ∧ i + 1 + 1 < m + 2 := by omega
    simp only [sf_int, if_pos hc]

/-- Sum over the interior of an indexed list as a weighted sum. -/
theorem sf_interior_withIdx_sum {α} [Field α] (x : List α) (f : Nat × α → α) :
    sumList ((interior (withIdx x)).map f)
      = ∑ i ∈ range x.length, sf_int x.length (fun i => f (i, x.getD i 0)) i := by
  rw [sumList_eq_sum, sf_withIdx_eq 0 x, sf_interior_range, List.map_map, fold_list_range_sum,
    ← sf_sum_shift]
  rfl

theorem sf_interior_sum {α} [Field α] (x : List α) :
    sumList (interior x) = ∑ i ∈ range x.length, sf_int x.length (fun i => x.getD i 0) i := by
  rw [sumList_eq_sum]
  conv_lhs => rw [list_eq_map_getD 0 x]
  rw [sf_interior_range, fold_list_range_sum, ← sf_sum_shift]

theorem sf_int_mul {α} [Field α] (n : Nat) (x w : Nat → α) (i : Nat) :
    sf_int n (fun i => x i * w i) i = x i * sf_int n w i := by
  unfold sf_int; split <;> simp

/-! ### S, pi, theta, Tajima's D -/

section
variable {α : Type} [Field α] [CharZero α]
open Spec

omit [CharZero α] in
theorem sf_segregating_eq (x : List α) :
    segregating x = sf_wsum x.length x (sf_int x.length (fun _ => 1)) := by
  unfold segregating sf_wsum
  rw [sf_interior_sum]
  apply Finset.sum_congr rfl
  intro i _
  unfold sf_int; split <;> simp

omit [CharZero α] in
theorem sf_thetaEstimate_eq (w : Nat → Nat → α) (x : List α) :
    thetaEstimate w x = sf_wsum x.length x (sf_int x.length (fun i => w i (x.length - 1))) := by
  unfold thetaEstimate sf_wsum
  simp only []
  rw [sf_interior_withIdx_sum]
  apply Finset.sum_congr rfl
  intro i _
  unfold sf_int; split
  · ring
  · simp

theorem sf_foldZero_int (a : Arr α) (hlen : a.data.length = size a.shape) (w : Nat → α)
    (hw : ∀ i, 0 < i → i + 1 < size a.shape → w (size a.shape - 1 - i) = w i) :
    sf_wsum (foldZero a).data.length (foldZero a).data (sf_int (foldZero a).data.length w)
      = sf_wsum a.data.length a.data (sf_int a.data.length w) := by
  rw [sf_foldZero_length, hlen]
  exact sf_foldZero_weighted a _ (sf_int_symm _ w hw)

theorem sf_fold_segregating (a : Arr α) (hlen : a.data.length = size a.shape) :
    segregating (foldZero a).data = segregating a.data := by
  rw [sf_segregating_eq, sf_segregating_eq]
  exact sf_foldZero_int a hlen _ (fun _ _ _ => rfl)

theorem sf_fold_thetaEstimate (w : Nat → Nat → α) (a : Arr α) (hlen : a.data.length = size a.shape)
    (hw : ∀ i, 0 < i → i + 1 < size a.shape →
      w (size a.shape - 1 - i) (size a.shape - 1) = w i (size a.shape - 1)) :
    thetaEstimate w (foldZero a).data = thetaEstimate w a.data := by
  rw [sf_thetaEstimate_eq, sf_thetaEstimate_eq]
  have e : (foldZero a).data.length = a.data.length := by rw [sf_foldZero_length, hlen]
  rw [show (fun i => w i ((foldZero a).data.length - 1)) = (fun i => w i (a.data.length - 1)) by rw [e]]
  apply sf_foldZero_int a hlen
  rw [hlen]; exact hw

theorem sf_fold_pi (a : Arr α) (hlen : a.data.length = size a.shape) :
    statPi (foldZero a).data = statPi a.data := by
  unfold statPi
  apply sf_fold_thetaEstimate _ a hlen
  intro i h0 h1
  unfold tajimaWeight
  have e : (size a.shape - 1 - i) * (size a.shape - 1 - (size a.shape - 1 - i))
      = i * (size a.shape - 1 - i) := by
    have : size a.shape - 1 - (size a.shape - 1 - i) = i := by omega
    rw [this, Nat.mul_comm]
  rw [e]

theorem sf_fold_theta (a : Arr α) (hlen : a.data.length = size a.shape) :
    statTheta (foldZero a).data = statTheta a.data := by
  unfold statTheta
  apply sf_fold_thetaEstimate _ a hlen
  intro i _ _
  rfl

omit [CharZero α] in
theorem sf_dTajima_congr (x y : List α) (hl : x.length = y.length) (hs : segregating x = segregating y)
    (hp : statPi x = statPi y) (ht : statTheta x = statTheta y) : dTajima x = dTajima y := by
  unfold dTajima
  rw [hl, hs, hp, ht]

theorem sf_fold_dTajima (a : Arr α) (hlen : a.data.length = size a.shape) :
    dTajima (foldZero a).data = dTajima a.data :=
  sf_dTajima_congr _ _ (by rw [sf_foldZero_length, hlen]) (sf_fold_segregating a hlen)
    (sf_fold_pi a hlen) (sf_fold_theta a hlen)

/-! ### the mirror partner of a flat position, per-axis frequencies -/

theorem sf_unflat_rev (s : List Nat) (i : Nat) (h : i < size s) :
    unflat s (size s - 1 - i) = mirror s (unflat s i) := by
  have hb := unflat_inB s i h
  rw [rev_eq_flat_mirror s i h, unflat_flat s _ (mirror_inB s _ hb)]

theorem sf_indexFromFlat_eq (s : List Nat) (i : Nat) (h : i < size s) : indexFromFlat s i = unflat s i :=
  unflatLoop_eq s i h

/-- frequencies of a multi-index -/
def sf_fr (k s : List Nat) : List α :=
  (List.zip k s).map (fun p => ((p.1 : Nat) : α) / ((p.2 - 1 : Nat) : α))

omit [CharZero α] in
theorem sf_freqs_eq (s : List Nat) (i : Nat) (h : i < size s) :
    freqs (α := α) s i = sf_fr (unflat s i) s := by
  unfold freqs sf_fr
  rw [sf_indexFromFlat_eq s i h]

theorem sf_fr_mirror : ∀ (s k : List Nat), InB s k → (∀ v ∈ s, 2 ≤ v) → ∀ j, j < s.length →
    nth (sf_fr (α := α) (mirror s k) s) j = 1 - nth (sf_fr (α := α) k s) j
  | [], [], _, _, j, hj => by simp at hj
  | v :: s, i :: k, hb, hv, 0, _ => by
    have hi : i < v := hb.1
    have h2 : 2 ≤ v := hv v (by simp)
    have hne : ((v - 1 : Nat) : α) ≠ 0 := Nat.cast_ne_zero.mpr (by omega)
    simp only [mirror, sf_fr, List.zip_cons_cons, List.map_cons, nth, List.getD_cons_zero]
    rw [show v - 1 - i = (v - 1) - i from rfl, Nat.cast_sub (by omega : i ≤ v - 1)]
    field_simp
  | v :: s, i :: k, hb, hv, j + 1, hj => by
    have ih := sf_fr_mirror s k hb.2 (fun w hw => hv w (by simp [hw])) j (by simpa using hj)
    simpa only [mirror, sf_fr, List.zip_cons_cons, List.map_cons, nth, List.getD_cons_succ] using ih
  | [], _ :: _, hb, _, _, _ => by simp [InB] at hb
  | _ :: _, [], hb, _, _, _ => by simp [InB] at hb

/-- mirroring the cell sends every frequency `f_j` to `1 - f_j` -/
theorem sf_freqs_rev (s : List Nat) (hv : ∀ v ∈ s, 2 ≤ v) (i : Nat) (h : i < size s) (j : Nat)
    (hj : j < s.length) :
    nth (freqs (α := α) s (size s - 1 - i)) j = 1 - nth (freqs (α := α) s i) j := by
  rw [sf_freqs_eq s _ (by omega), sf_freqs_eq s i h, sf_unflat_rev s i h]
  exact sf_fr_mirror s _ (unflat_inB s i h) hv j hj

/-! ### f2, f3, f4 -/

omit [CharZero α] in
theorem sf_freqSum_eq (w : List α → α) (a : Arr α) :
    freqSum w a = sf_wsum a.data.length a.data (fun i => w (freqs a.shape i)) := by
  unfold freqSum sf_wsum
  rw [sumList_eq_sum, sf_withIdx_eq 0 a.data, List.map_map, fold_list_range_sum]
  rfl

omit [CharZero α] in
theorem sf_freqSum_normalized (w : List α → α) (a : Arr α) :
    freqSum w (normalized a) = freqSum w a / sumList a.data := by
  rw [sf_freqSum_eq, sf_freqSum_eq]
  show sf_wsum (normalize a.data).length (normalize a.data) _ = _
  rw [normalize_length, sf_wsum_normalize]
  rfl

theorem sf_fold_sumList (a : Arr α) (hlen : a.data.length = size a.shape) :
    sumList (foldZero a).data = sumList a.data := by
  rw [sumList_eq_sum, sumList_eq_sum, sf_foldZero_data, foldSpectrum_mass a.shape a.data hlen]

theorem sf_fold_freqSum (w : List α → α) (a : Arr α) (hlen : a.data.length = size a.shape)
    (hw : ∀ i, i < size a.shape → w (freqs a.shape (size a.shape - 1 - i)) = w (freqs a.shape i)) :
    freqSum w (normalized (foldZero a)) = freqSum w (normalized a) := by
  rw [sf_freqSum_normalized, sf_freqSum_normalized, sf_fold_sumList a hlen, sf_freqSum_eq, sf_freqSum_eq,
    sf_foldZero_length, sf_foldZero_shape, hlen, sf_foldZero_weighted a _ hw]

theorem sf_fold_f2 (a : Arr α) (hlen : a.data.length = size a.shape) (hv : ∀ v ∈ a.shape, 2 ≤ v)
    (h2 : a.shape.length = 2) : statF2 (normalized (foldZero a)) = statF2 (normalized a) := by
  unfold statF2
  apply sf_fold_freqSum _ a hlen
  intro i hi
  rw [sf_freqs_rev a.shape hv i hi 0 (by omega), sf_freqs_rev a.shape hv i hi 1 (by omega)]
  ring

theorem sf_fold_f3 (a : Arr α) (hlen : a.data.length = size a.shape) (hv : ∀ v ∈ a.shape, 2 ≤ v)
    (h3 : a.shape.length = 3) : statF3 (normalized (foldZero a)) = statF3 (normalized a) := by
  unfold statF3
  apply sf_fold_freqSum _ a hlen
  intro i hi
  rw [sf_freqs_rev a.shape hv i hi 0 (by omega), sf_freqs_rev a.shape hv i hi 1 (by omega),
    sf_freqs_rev a.shape hv i hi 2 (by omega)]
  ring

theorem sf_fold_f4 (a : Arr α) (hlen : a.data.length = size a.shape) (hv : ∀ v ∈ a.shape, 2 ≤ v)
    (h4 : a.shape.length = 4) : statF4 (normalized (foldZero a)) = statF4 (normalized a) := by
  unfold statF4
  apply sf_fold_freqSum _ a hlen
  intro i hi
  rw [sf_freqs_rev a.shape hv i hi 0 (by omega), sf_freqs_rev a.shape hv i hi 1 (by omega),
    sf_freqs_rev a.shape hv i hi 2 (by omega), sf_freqs_rev a.shape hv i hi 3 (by omega)]
  ring

/-! ### Fst -/

omit [CharZero α] in
theorem sf_foldl_pair {β : Type} (A B : β → α) : ∀ (l : List β) (z : α × α),
    l.foldl (fun (acc : α × α) p => (acc.1 + A p, acc.2 + B p)) z
      = (z.1 + (l.map A).sum, z.2 + (l.map B).sum)
  | [], z => by simp
  | p :: l, z => by
    rw [List.foldl_cons, sf_foldl_pair A B l]
    simp [add_assoc]

/-- per-cell weight of the numerator of Hudson's Fst -/
def sf_fstNum (shape : List Nat) (i : Nat) : α :=
  (nth (freqs (α := α) shape i) 0 - nth (freqs (α := α) shape i) 1)
      * (nth (freqs (α := α) shape i) 0 - nth (freqs (α := α) shape i) 1)
    - nth (freqs (α := α) shape i) 0 * (1 - nth (freqs (α := α) shape i) 0)
        / (((shape.getD 0 0 : Nat) : α) - ((2 : Nat) : α))
    - nth (freqs (α := α) shape i) 1 * (1 - nth (freqs (α := α) shape i) 1)
        / (((shape.getD 1 0 : Nat) : α) - ((2 : Nat) : α))

/-- per-cell weight of the denominator of Hudson's Fst -/
def sf_fstDen (shape : List Nat) (i : Nat) : α :=
  nth (freqs (α := α) shape i) 0 * (1 - nth (freqs (α := α) shape i) 1)
    + nth (freqs (α := α) shape i) 1 * (1 - nth (freqs (α := α) shape i) 0)

omit [CharZero α] in
theorem sf_fstParts_eq (a : Arr α) :
    fstParts a = (sf_wsum a.data.length a.data (sf_int a.data.length (sf_fstNum a.shape)),
                  sf_wsum a.data.length a.data (sf_int a.data.length (sf_fstDen a.shape))) := by
  unfold fstParts
  simp only []
  refine Eq.trans (sf_foldl_pair (fun p : Nat × α => p.2 * sf_fstNum a.shape p.1)
    (fun p : Nat × α => p.2 * sf_fstDen a.shape p.1) _ _) ?_
  rw [← sumList_eq_sum, ← sumList_eq_sum, sf_interior_withIdx_sum, sf_interior_withIdx_sum]
  simp only [zero_add, sf_wsum, sf_int_mul]

omit [CharZero α] in
theorem sf_fstParts_normalized (a : Arr α) :
    fstParts (normalized a)
      = (sf_wsum a.data.length a.data (sf_int a.data.length (sf_fstNum a.shape)) / sumList a.data,
         sf_wsum a.data.length a.data (sf_int a.data.length (sf_fstDen a.shape)) / sumList a.data) := by
  rw [sf_fstParts_eq]
  show (sf_wsum (normalize a.data).length (normalize a.data)
      (sf_int (normalize a.data).length (sf_fstNum a.shape)),
    sf_wsum (normalize a.data).length (normalize a.data)
      (sf_int (normalize a.data).length (sf_fstDen a.shape))) = _
  rw [normalize_length, sf_wsum_normalize, sf_wsum_normalize]

theorem sf_fstNum_rev (s : List Nat) (hv : ∀ v ∈ s, 2 ≤ v) (h2 : s.length = 2) (i : Nat)
    (h : i < size s) : sf_fstNum (α := α) s (size s - 1 - i) = sf_fstNum s i := by
  unfold sf_fstNum
  rw [sf_freqs_rev s hv i h 0 (by omega), sf_freqs_rev s hv i h 1 (by omega)]
  ring

theorem sf_fstDen_rev (s : List Nat) (hv : ∀ v ∈ s, 2 ≤ v) (h2 : s.length = 2) (i : Nat)
    (h : i < size s) : sf_fstDen (α := α) s (size s - 1 - i) = sf_fstDen s i := by
  unfold sf_fstDen
  rw [sf_freqs_rev s hv i h 0 (by omega), sf_freqs_rev s hv i h 1 (by omega)]
  ring

theorem sf_fold_fstParts (a : Arr α) (hlen : a.data.length = size a.shape) (hv : ∀ v ∈ a.shape, 2 ≤ v)
    (h2 : a.shape.length = 2) : fstParts (normalized (foldZero a)) = fstParts (normalized a) := by
  rw [sf_fstParts_normalized, sf_fstParts_normalized, sf_fold_sumList a hlen, sf_foldZero_shape,
    sf_foldZero_int a hlen _ (fun i _ h1 => sf_fstNum_rev a.shape hv h2 i (by omega)),
    sf_foldZero_int a hlen _ (fun i _ h1 => sf_fstDen_rev a.shape hv h2 i (by omega))]

theorem sf_fold_fst (a : Arr α) (hlen : a.data.length = size a.shape) (hv : ∀ v ∈ a.shape, 2 ≤ v)
    (h2 : a.shape.length = 2) : statFst (normalized (foldZero a)) = statFst (normalized a) := by
  unfold statFst
  rw [sf_fold_fstParts a hlen hv h2]

/-! ### pi_xy -/

theorem sf_cells_eq (r c : Nat) (hc : 0 < c) :
    (List.range r).flatMap (fun m1 => (List.range c).map (fun m2 => (m1, m2)))
      = (List.range (r * c)).map (fun i => (i / c, i % c)) := by
  induction r with
  | zero => simp
  | succ r ih =>
    rw [List.range_succ, List.flatMap_append, ih, Nat.succ_mul, List.range_add, List.map_append]
    congr 1
    simp only [List.flatMap_cons, List.flatMap_nil, List.append_nil, List.map_map]
    apply List.map_congr_left
    intro j hj
    have hj' : j < c := List.mem_range.mp hj
    simp [Nat.mul_comm r c, Nat.mul_add_div hc, Nat.div_eq_of_lt hj', Nat.mod_eq_of_lt hj']

theorem sf_take_drop_range {β : Type} (g : Nat → β) (n : Nat) :
    (((List.range n).map g).take (n - 1)).drop 1 = (List.range (n - 2)).map (fun i => g (i + 1)) := by
  have h := sf_interior_range g n
  unfold interior at h
  simpa using h

/-- per-cell weight of pi_xy on the flat position of a `[r, c]` spectrum -/
def sf_pixyW (r c i : Nat) : α := (((i / c) * (c - 1 - i % c) + (i % c) * (r - 1 - i / c) : Nat) : α)

omit [CharZero α] in
theorem sf_statPiXY_eq (a : Arr α) (r c : Nat) (hs : a.shape = [r, c]) (hr : 0 < r) (hc : 0 < c)
    (hlen : a.data.length = r * c) :
    statPiXY a
      = sf_wsum (r * c) a.data (sf_int (r * c) (sf_pixyW r c)) / (((r - 1) * (c - 1) : Nat) : α) := by
  unfold statPiXY
  simp only [hs, List.getD_cons_zero, List.getD_cons_succ]
  rw [Nat.sub_add_cancel hr, Nat.sub_add_cancel hc, sf_cells_eq r c hc, hlen, sf_take_drop_range,
    List.map_map, sumList_eq_sum, fold_list_range_sum]
  congr 1
  unfold sf_wsum
  rw [Finset.sum_congr rfl
    (fun i _ => (sf_int_mul (r * c) (fun i => a.data.getD i 0) (sf_pixyW r c) i).symm), ← sf_sum_shift]
  apply Finset.sum_congr rfl
  intro i _
  simp only [Function.comp, nth, sf_pixyW, Nat.div_add_mod']

omit [CharZero α] in
theorem sf_pixyW_rev (r c : Nat) (i : Nat) (h : i < r * c) :
    sf_pixyW (α := α) r c (r * c - 1 - i) = sf_pixyW r c i := by
  have hsz : size [r, c] = r * c := by simp [size]
  have hu := sf_unflat_rev [r, c] i (by rw [hsz]; exact h)
  rw [hsz] at hu
  simp only [unflat, size, mirror, Nat.mul_one, Nat.div_one, List.cons.injEq, and_true] at hu
  obtain ⟨h1, h2⟩ := hu
  have hb := unflat_inB [r, c] i (by rw [hsz]; exact h)
  simp only [unflat, size, InB, Nat.mul_one, Nat.div_one, and_true] at hb
  obtain ⟨b1, b2⟩ := hb
  unfold sf_pixyW
  rw [h1, h2]
  congr 1
  generalize i / c = q at b1
  generalize i % c = t at b2
  have e1 : c - 1 - (c - 1 - t) = t := by omega
  have e2 : r - 1 - (r - 1 - q) = q := by omega
  rw [e1, e2, Nat.mul_comm (r - 1 - q), Nat.mul_comm (c - 1 - t), Nat.add_comm]

theorem sf_fold_pixy (a : Arr α) (hlen : a.data.length = size a.shape) (hv : ∀ v ∈ a.shape, 2 ≤ v)
    (h2 : a.shape.length = 2) : statPiXY (foldZero a) = statPiXY a := by
  obtain ⟨data, shape⟩ := a
  simp only at hlen hv h2
  match shape, h2 with
  | [r, c], _ =>
    have hr : 2 ≤ r := hv r (by simp)
    have hc : 2 ≤ c := hv c (by simp)
    have hsz : size [r, c] = r * c := by simp [size]
    rw [sf_statPiXY_eq _ r c rfl (by omega) (by omega) (by rw [sf_foldZero_length, hsz]),
      sf_statPiXY_eq _ r c rfl (by omega) (by omega) (by rw [hlen, hsz])]
    congr 1
    have := sf_foldZero_weighted (α := α) ⟨data, [r, c]⟩ (sf_int (r * c) (sf_pixyW r c))
      (by
        rw [hsz]
        exact sf_int_symm _ _ (fun i _ h1 => sf_pixyW_rev r c i (by omega)))
    rw [hsz] at this
    exact this

/-! ### KING, R0, R1 on a 3x3 spectrum -/

theorem sf_fold33_cell (x : List α) (i : Nat) (hi : i < 9) :
    (foldSpectrum (1/2 : α) 0 [3, 3] x).getD i 0
      = if 2 * indexSumFromFlat [3, 3] i < 4 then x.getD i 0 + x.getD (8 - i) 0
        else if 2 * indexSumFromFlat [3, 3] i = 4 then (x.getD i 0 + x.getD (8 - i) 0) / 2
        else 0 := by
  rw [foldSpectrum_getD _ _ _ _ i (by simpa [size] using hi), foldCell_if]
  rfl

theorem sf_fold33 (x : List α) :
    (foldSpectrum (1/2 : α) 0 [3, 3] x).getD 1 0 = x.getD 1 0 + x.getD 7 0 ∧
    (foldSpectrum (1/2 : α) 0 [3, 3] x).getD 2 0 = (x.getD 2 0 + x.getD 6 0) / 2 ∧
    (foldSpectrum (1/2 : α) 0 [3, 3] x).getD 3 0 = x.getD 3 0 + x.getD 5 0 ∧
    (foldSpectrum (1/2 : α) 0 [3, 3] x).getD 4 0 = x.getD 4 0 ∧
    (foldSpectrum (1/2 : α) 0 [3, 3] x).getD 5 0 = 0 ∧
    (foldSpectrum (1/2 : α) 0 [3, 3] x).getD 6 0 = (x.getD 2 0 + x.getD 6 0) / 2 ∧
    (foldSpectrum (1/2 : α) 0 [3, 3] x).getD 7 0 = 0 := by
  have e1 : indexSumFromFlat [3, 3] 1 = 1 := by decide
  have e2 : indexSumFromFlat [3, 3] 2 = 2 := by decide
  have e3 : indexSumFromFlat [3, 3] 3 = 1 := by decide
  have e4 : indexSumFromFlat [3, 3] 4 = 2 := by decide
  have e5 : indexSumFromFlat [3, 3] 5 = 3 := by decide
  have e6 : indexSumFromFlat [3, 3] 6 = 2 := by decide
  have e7 : indexSumFromFlat [3, 3] 7 = 3 := by decide
  refine ⟨?_, ?_, ?_, ?_, ?_, ?_, ?_⟩
  · rw [sf_fold33_cell x 1 (by omega), e1]; simp
  · rw [sf_fold33_cell x 2 (by omega), e2]; simp
  · rw [sf_fold33_cell x 3 (by omega), e3]; simp
  · rw [sf_fold33_cell x 4 (by omega), e4]; simp only [Nat.reduceMul, Nat.lt_irrefl, if_false, if_true, Nat.reduceSub]; ring
  · rw [sf_fold33_cell x 5 (by omega), e5]; simp
  · rw [sf_fold33_cell x 6 (by omega), e6]; simp [add_comm]
  · rw [sf_fold33_cell x 7 (by omega), e7]; simp

theorem sf_fold_king (a : Arr α) (h33 : a.shape = [3, 3]) : statKing (foldZero a) = statKing a := by
  obtain ⟨h1, h2, h3, h4, h5, h6, h7⟩ := sf_fold33 a.data
  unfold statKing at33 nth
  rw [sf_foldZero_data, h33]
  simp only [Nat.mul_zero, Nat.mul_one, Nat.zero_add, Nat.reduceMul, Nat.reduceAdd]
  rw [h1, h2, h3, h4, h5, h6, h7]
  congr 1 <;> ring

theorem sf_fold_r0 (a : Arr α) (h33 : a.shape = [3, 3]) : statR0 (foldZero a) = statR0 a := by
  obtain ⟨h1, h2, h3, h4, h5, h6, h7⟩ := sf_fold33 a.data
  unfold statR0 at33 nth
  rw [sf_foldZero_data, h33]
  simp only [Nat.mul_zero, Nat.mul_one, Nat.zero_add, Nat.reduceMul, Nat.reduceAdd]
  rw [h2, h4, h6]
  congr 1; ring

theorem sf_fold_r1 (a : Arr α) (h33 : a.shape = [3, 3]) : statR1 (foldZero a) = statR1 a := by
  obtain ⟨h1, h2, h3, h4, h5, h6, h7⟩ := sf_fold33 a.data
  unfold statR1 at33 nth
  rw [sf_foldZero_data, h33]
  simp only [Nat.mul_zero, Nat.mul_one, Nat.zero_add, Nat.reduceMul, Nat.reduceAdd]
  rw [h1, h2, h3, h4, h5, h6, h7]
  congr 1
  simp only [sumList_eq_sum, List.sum_cons, List.sum_nil]
  ring

end

end Sfs
