/-
Helper lemmas for C14 (StatFold).
-/
import SfsModel.Model.Stat
import SfsModel.Spec.Stat
namespace Sfs

end Sfs
