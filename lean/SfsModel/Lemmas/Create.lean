/-
Helper lemmas for the create run: the column loop `tally` against the order-free specification, `readSite` = `siteSpec`,
the runner loop as a sum of contributions.
-/
import SfsModel.Model.Create
import SfsModel.Spec.Create
import SfsModel.Lemmas.Index
import SfsModel.Lemmas.SumBox
import SfsModel.Lemmas.Hyper
import Mathlib.Algebra.Field.Basic
import Mathlib.Algebra.CharZero.Defs
import Mathlib.Algebra.BigOperators.Group.List.Basic
import Mathlib.Algebra.BigOperators.Group.Finset.Basic
namespace Sfs
open Sfs.Spec

/-! ### the selected pairs -/

theorem selected_nil_left (map : List (String × Nat)) (gts : List GtRes) : selected map [] gts = [] := by
  simp [selected]

theorem selected_nil_right (map : List (String × Nat)) (cols : List String) : selected map cols [] = [] := by
  simp [selected]

theorem selected_cons_none (map : List (String × Nat)) (c : String) (cs : List String) (g : GtRes) (gs : List GtRes)
    (h : lookupPop map c = none) : selected map (c :: cs) (g :: gs) = selected map cs gs := by
  simp [selected, h]

theorem selected_cons_some (map : List (String × Nat)) (c : String) (cs : List String) (g : GtRes) (gs : List GtRes)
    (pid : Nat) (h : lookupPop map c = some pid) :
    selected map (c :: cs) (g :: gs) = (pid, g) :: selected map cs gs := by
  simp [selected, h]

/-! ### `bump` -/

theorem bump_length (l : List Nat) (i k : Nat) : (bump l i k).length = l.length := by
  simp [bump]

theorem bump_getD (l : List Nat) (i k j : Nat) (hj : j < l.length) :
    (bump l i k).getD j 0 = l.getD j 0 + if i = j then k else 0 := by
  unfold bump
  rw [List.getD_eq_getElem?_getD, List.getD_eq_getElem?_getD, List.getElem?_set]
  by_cases e : i = j
  · subst e; simp [hj]
  · simp [e]

/-- Sum over the selected pairs of population `j` of a per-genotype weight. -/
def popSum (f : GtRes → Nat) (sel : List (Nat × GtRes)) (j : Nat) : Nat :=
  ((sel.filter (fun p => p.1 = j)).map (fun p => f p.2)).sum

theorem popSum_nil (f : GtRes → Nat) (j : Nat) : popSum f [] j = 0 := rfl

theorem popSum_cons (f : GtRes → Nat) (p : Nat × GtRes) (sel : List (Nat × GtRes)) (j : Nat) :
    popSum f (p :: sel) j = (if p.1 = j then f p.2 else 0) + popSum f sel j := by
  unfold popSum
  by_cases e : p.1 = j <;> simp [e]

theorem altCounts_eq (npop : Nat) (sel : List (Nat × GtRes)) :
    altCounts npop sel = (List.range npop).map (popSum altOf sel) := rfl

theorem calledTotals_eq (npop : Nat) (sel : List (Nat × GtRes)) :
    calledTotals npop sel = (List.range npop).map (popSum calledOf sel) := rfl

/-! ### the column loop -/

/-- What `tally` computes from an arbitrary starting state, in terms of the selected pairs. -/
theorem tally_spec (map : List (String × Nat)) (cols : List String) (gts : List GtRes) (st : SiteSt) :
    (tally map cols gts st = none ↔ hasPloidyError (selected map cols gts) = true) ∧
    ∀ st1, tally map cols gts st = some st1 →
      st1.counts.length = st.counts.length ∧ st1.totals.length = st.totals.length ∧
      (∀ j, j < st.counts.length →
        st1.counts.getD j 0 = st.counts.getD j 0 + popSum altOf (selected map cols gts) j) ∧
      (∀ j, j < st.totals.length →
        st1.totals.getD j 0 = st.totals.getD j 0 + popSum calledOf (selected map cols gts) j) ∧
      st1.skipped.isEmpty = (st.skipped.isEmpty && complete (selected map cols gts)) := by
  fun_induction tally map cols gts st with
  | case1 c cs g gs st hl ih =>
    rw [selected_cons_none _ _ _ _ _ hl]; exact ih
  | case2 c cs gs st pid hl k ih =>
    rw [selected_cons_some _ _ _ _ _ pid hl]
    obtain ⟨ih1, ih2⟩ := ih
    refine ⟨?_, ?_⟩
    · rw [ih1]; simp [hasPloidyError]
    · intro st1 h
      obtain ⟨a, b, c', d, e⟩ := ih2 st1 h
      simp only [bump_length] at a b c' d
      refine ⟨a, b, ?_, ?_, ?_⟩
      · intro j hj
        rw [c' j hj, bump_getD _ _ _ _ hj, popSum_cons]
        simp only [altOf]; omega
      · intro j hj
        rw [d j hj, bump_getD _ _ _ _ hj, popSum_cons]
        simp only [calledOf]; omega
      · rw [e]; simp [complete]
  | case3 c cs gs st pid hl s ih =>
    rw [selected_cons_some _ _ _ _ _ pid hl]
    obtain ⟨ih1, ih2⟩ := ih
    refine ⟨?_, ?_⟩
    · rw [ih1]; simp [hasPloidyError]
    · intro st1 h
      obtain ⟨a, b, c', d, e⟩ := ih2 st1 h
      refine ⟨a, b, ?_, ?_, ?_⟩
      · intro j hj
        rw [c' j hj, popSum_cons]
        simp [altOf]
      · intro j hj
        rw [d j hj, popSum_cons]
        simp [calledOf]
      · rw [e]; simp [complete]
  | case4 c cs gs st pid hl =>
    rw [selected_cons_some _ _ _ _ _ pid hl]
    simp [hasPloidyError]
  | case5 cols gts st hne =>
    have hs : selected map cols gts = [] := by
      cases cols with
      | nil => exact selected_nil_left _ _
      | cons c cs =>
        cases gts with
        | nil => exact selected_nil_right _ _
        | cons g gs => exact absurd rfl (hne c cs g gs rfl)
    rw [hs]
    simp [hasPloidyError, complete, popSum_nil]

/-! ### `read_site` -/

theorem list_ext_getD {β} (d : β) (a b : List β) (h : a.length = b.length)
    (h' : ∀ j, j < a.length → a.getD j d = b.getD j d) : a = b := by
  apply List.ext_getElem h
  intro j h1 h2
  have := h' j h1
  rw [List.getD_eq_getElem?_getD, List.getD_eq_getElem?_getD, List.getElem?_eq_getElem h1,
    List.getElem?_eq_getElem h2] at this
  simpa using this

theorem zipWith_eq_all : ∀ (a b : List Nat), a.length = b.length →
    (List.zipWith (fun t m => decide (t = m)) a b).all id = decide (a = b)
  | [], [], _ => by simp
  | x :: a, y :: b, h => by
    have ih := zipWith_eq_all a b (by simpa using h)
    simp only [List.zipWith_cons_cons, List.all_cons, ih, id]
    by_cases e : x = y <;> simp [e]
  | [], _ :: _, h => by simp at h
  | _ :: _, [], h => by simp at h

/-- The state `read_site` leaves behind and the tallies it classifies, from arbitrary buffers of the right length. -/
theorem readSite_tally (cfg : SiteCfg) (st : SiteSt)
    (h1 : st.counts.length = numPops cfg.map) (h2 : st.totals.length = numPops cfg.map) (gts : List GtRes) :
    (hasPloidyError (selected cfg.map cfg.cols gts) = true →
      tally cfg.map cfg.cols gts ⟨st.counts.map (fun _ => 0), st.totals.map (fun _ => 0), []⟩ = none) ∧
    (hasPloidyError (selected cfg.map cfg.cols gts) = false →
      ∃ st1, tally cfg.map cfg.cols gts ⟨st.counts.map (fun _ => 0), st.totals.map (fun _ => 0), []⟩ = some st1 ∧
        st1.counts = altCounts (numPops cfg.map) (selected cfg.map cfg.cols gts) ∧
        st1.totals = calledTotals (numPops cfg.map) (selected cfg.map cfg.cols gts) ∧
        st1.skipped.isEmpty = complete (selected cfg.map cfg.cols gts)) := by
  obtain ⟨hn, hs⟩ := tally_spec cfg.map cfg.cols gts ⟨st.counts.map (fun _ => 0), st.totals.map (fun _ => 0), []⟩
  refine ⟨hn.mpr, ?_⟩
  intro hp
  cases ht : tally cfg.map cfg.cols gts ⟨st.counts.map (fun _ => 0), st.totals.map (fun _ => 0), []⟩ with
  | none => rw [hn.mp ht] at hp; cases hp
  | some st1 =>
    obtain ⟨a, b, c, d, e⟩ := hs st1 ht
    simp only [List.length_map] at a b c d
    refine ⟨st1, rfl, ?_, ?_, ?_⟩
    · apply list_ext_getD 0
      · simp [altCounts_eq, a, h1]
      · intro j hj
        rw [a] at hj
        rw [c j hj, altCounts_eq]
        have hj' : j < numPops cfg.map := by omega
        simp [List.getD_eq_getElem?_getD, hj, hj']
    · apply list_ext_getD 0
      · simp [calledTotals_eq, b, h2]
      · intro j hj
        rw [b] at hj
        rw [d j hj, calledTotals_eq]
        have hj' : j < numPops cfg.map := by omega
        simp [List.getD_eq_getElem?_getD, hj, hj']
    · simpa using e

/-- The buffers keep their length. -/
theorem readSite_lengths (cfg : SiteCfg) (st : SiteSt) (gts : List GtRes) :
    (readSite cfg st gts).2.counts.length = st.counts.length ∧
    (readSite cfg st gts).2.totals.length = st.totals.length := by
  cases ht : tally cfg.map cfg.cols gts ⟨st.counts.map (fun _ => 0), st.totals.map (fun _ => 0), []⟩ with
  | none => simp only [readSite, ht, List.length_map, and_self]
  | some st1 =>
    obtain ⟨a, b, _⟩ := (tally_spec cfg.map cfg.cols gts _).2 st1 ht
    simp only [readSite, ht]
    simp only [List.length_map] at a b
    exact ⟨a, b⟩

/-- `read_site` returns the pure function `siteSpec` of the current record, whatever the buffers held.
    Only the last clause of `CfgOk` is needed. -/
theorem readSite_eq_spec (cfg : SiteCfg)
    (hpt : ∀ pt, cfg.projectTo = some pt → pt.length = numPops cfg.map) (st : SiteSt)
    (h1 : st.counts.length = numPops cfg.map) (h2 : st.totals.length = numPops cfg.map) (gts : List GtRes) :
    (readSite cfg st gts).1 = siteSpec cfg gts := by
  obtain ⟨hA, hB⟩ := readSite_tally cfg st h1 h2 gts
  cases hp : hasPloidyError (selected cfg.map cfg.cols gts) with
  | true => simp only [readSite, siteSpec, hA hp, hp, if_true]
  | false =>
    obtain ⟨st1, ht, hc, htot, hsk⟩ := hB hp
    simp only [readSite, siteSpec, ht, hc, htot, hsk, hp]
    cases hq : cfg.projectTo with
    | none => simp only; split <;> rfl
    | some pt =>
      have hl : (calledTotals (numPops cfg.map) (selected cfg.map cfg.cols gts)).length = pt.length := by
        rw [hpt pt hq]; simp [calledTotals_eq]
      simp only [zipWith_eq_all _ _ hl, ge_iff_le, decide_eq_true_eq]
      split
      · rfl
      · split <;> rfl

theorem readSite_eq_spec_of_cfgOk (cfg : SiteCfg) (hc : CfgOk cfg) (st : SiteSt)
    (h1 : st.counts.length = numPops cfg.map) (h2 : st.totals.length = numPops cfg.map) (gts : List GtRes) :
    (readSite cfg st gts).1 = siteSpec cfg gts :=
  readSite_eq_spec cfg hc.2.2.2.2 st h1 h2 gts

/-! ### `flatIndex`, `addOne`, `addProjected` as entrywise additions -/

theorem flatIndex_eq (shape c : List Nat) :
    flatIndex shape c = if InB shape c then some (flat shape c) else none := by
  unfold flatIndex
  rw [strides_length, dot_strides]
  by_cases hl : shape.length = c.length
  · have := inBounds_iff shape c hl.symm
    by_cases hin : InB shape c
    · simp [hl, hin, this.mpr hin]
    · have : inBounds shape c = false := by
        cases hb : inBounds shape c with
        | false => rfl
        | true => exact absurd (this.mp hb) hin
      simp [hl, hin, this]
  · have hin : ¬ InB shape c := fun h => hl (InB_length shape c h).symm
    simp [hl, hin]

theorem flatIndex_eq_some_iff (shape c : List Nat) (f : Nat) :
    flatIndex shape c = some f ↔ InB shape c ∧ flat shape c = f := by
  rw [flatIndex_eq]
  by_cases hin : InB shape c <;> simp [hin]

theorem getD_range_map {β} (d : β) (n : Nat) (g : Nat → β) (f : Nat) :
    ((List.range n).map g).getD f d = if f < n then g f else d := by
  rw [List.getD_eq_getElem?_getD]
  by_cases h : f < n
  · simp [h]
  · simp [h]

theorem getD_replicate {β} (d : β) (n f : Nat) : (List.replicate n d).getD f d = d := by
  rw [List.getD_eq_getElem?_getD, List.getElem?_replicate]
  split <;> rfl

theorem getD_of_le {β} (d : β) (l : List β) (f : Nat) (h : l.length ≤ f) : l.getD f d = d := by
  rw [List.getD_eq_getElem?_getD, List.getElem?_eq_none h]; rfl

theorem list_eq_range_map {β} (d : β) (l : List β) : l = (List.range l.length).map (fun f => l.getD f d) := by
  apply list_ext_getD d
  · simp
  · intro j hj
    rw [getD_range_map, if_pos hj]

section field
variable {α : Type} [Field α]

theorem zipWith_add_length (a b : List α) (h : a.length = b.length) :
    (List.zipWith (· + ·) a b).length = a.length := by
  simp [h]

theorem zipWith_add_getD (a b : List α) (h : a.length = b.length) (f : Nat) :
    (List.zipWith (· + ·) a b).getD f 0 = a.getD f 0 + b.getD f 0 := by
  by_cases hf : f < a.length
  · have hf' : f < b.length := by omega
    simp [List.getD_eq_getElem?_getD, hf, hf']
  · have hf' : a.length ≤ f := by omega
    rw [getD_of_le _ _ _ (by simp; omega), getD_of_le _ _ _ hf', getD_of_le _ _ _ (by omega)]
    simp

theorem zipWith_add_zero_left (n : Nat) (b : List α) (h : b.length = n) :
    List.zipWith (· + ·) (List.replicate n (0 : α)) b = b := by
  apply list_ext_getD 0
  · simp [h]
  · intro j _
    rw [zipWith_add_getD _ _ (by simp [h]), getD_replicate, zero_add]

theorem zipWith_add_zero_right (n : Nat) (a : List α) (h : a.length = n) :
    List.zipWith (· + ·) a (List.replicate n (0 : α)) = a := by
  apply list_ext_getD 0
  · simp [h]
  · intro j _
    rw [zipWith_add_getD _ _ (by simp [h]), getD_replicate, add_zero]

theorem zipWith_add_assoc (a b c : List α) (h1 : a.length = b.length) (h2 : b.length = c.length) :
    List.zipWith (· + ·) (List.zipWith (· + ·) a b) c = List.zipWith (· + ·) a (List.zipWith (· + ·) b c) := by
  apply list_ext_getD 0
  · simp [h1, h2]
  · intro j _
    rw [zipWith_add_getD _ _ (by simp [h1, h2]), zipWith_add_getD _ _ h1,
      zipWith_add_getD _ _ (by simp [h1, h2]), zipWith_add_getD _ _ h2, add_assoc]

theorem addOne_length (shape : List Nat) (scs : List α) (c : List Nat) :
    (addOne shape scs c).length = scs.length := by
  unfold addOne
  split <;> simp

/-- `scs[&counts] += 1` adds the indicator of the flat position; nothing when the index is out of bounds. -/
theorem addOne_getD (shape : List Nat) (scs : List α) (c : List Nat) (hs : scs.length = size shape) (f : Nat) :
    (addOne shape scs c).getD f 0 = scs.getD f 0 + if flat shape c = f ∧ InB shape c then 1 else 0 := by
  unfold addOne
  rw [flatIndex_eq]
  by_cases hin : InB shape c
  · have hlt : flat shape c < scs.length := by rw [hs]; exact flat_lt shape c hin
    simp only [hin, if_true, and_true]
    rw [List.getD_eq_getElem?_getD, List.getElem?_set]
    by_cases e : flat shape c = f
    · subst e
      simp [hlt, List.getD_eq_getElem?_getD]
    · simp [e, List.getD_eq_getElem?_getD]
  · simp [hin]

theorem addOne_eq_zipWith (shape : List Nat) (scs : List α) (c : List Nat) (hs : scs.length = size shape) :
    addOne shape scs c = List.zipWith (· + ·) scs
      ((List.range (size shape)).map (fun f => if flat shape c = f ∧ InB shape c then (1 : α) else 0)) := by
  apply list_ext_getD 0
  · simp [addOne_length, hs]
  · intro j hj
    rw [addOne_length] at hj
    rw [addOne_getD _ _ _ hs, zipWith_add_getD _ _ (by simp [hs]), getD_range_map,
      if_pos (show j < size shape by omega)]

theorem addProjected_length (acc p : List α) (w : α) : (addProjected acc p w).length = acc.length := by
  unfold addProjected
  simp only [List.length_append, List.length_zipWith, List.length_drop]
  omega

theorem addProjected_getD (acc p : List α) (w : α) (f : Nat) (hf : f < acc.length ∨ p.length ≤ acc.length) :
    (addProjected acc p w).getD f 0 = acc.getD f 0 + p.getD f 0 * w := by
  by_cases hfa : f < acc.length
  · unfold addProjected
    by_cases hfp : f < p.length
    · rw [List.getD_eq_getElem?_getD, List.getElem?_append_left (by simp; omega)]
      simp [List.getD_eq_getElem?_getD, hfa, hfp]
    · rw [List.getD_eq_getElem?_getD, List.getElem?_append_right (by simp; omega)]
      have hmin : min acc.length p.length = p.length := by omega
      have : p.length + (f - p.length) = f := by omega
      simp [List.getD_eq_getElem?_getD, hfa, hfp, hmin, this]
  · have hpa : p.length ≤ acc.length := by omega
    rw [getD_of_le _ _ _ (by rw [addProjected_length]; omega), getD_of_le _ acc _ (by omega),
      getD_of_le _ p _ (by omega)]
    simp

theorem addProjected_one_eq_zipWith (acc p : List α) (h : p.length = acc.length) :
    addProjected acc p 1 = List.zipWith (· + ·) acc p := by
  apply list_ext_getD 0
  · simp [addProjected_length, h]
  · intro j _
    rw [addProjected_getD _ _ _ _ (Or.inr (by omega)), zipWith_add_getD _ _ h.symm, mul_one]

/-! ### contributions -/

theorem contribOfSite_length (cfg : SiteCfg) (o : Option Site) :
    (contribOfSite (α := α) cfg o).length = size cfg.outShape := by
  unfold contribOfSite
  split <;> simp

theorem contrib_length (cfg : SiteCfg) (gts : List GtRes) : (contrib (α := α) cfg gts).length = size cfg.outShape :=
  contribOfSite_length cfg _

theorem recContrib_length (cfg : SiteCfg) (r : Rec) : (recContrib (α := α) cfg r).length = size cfg.outShape := by
  cases r with
  | gts c p l => exact contrib_length cfg l
  | corrupt c p => simp [recContrib]

theorem contribOfSite_standard_getD (cfg : SiteCfg) (c : List Nat) (f : Nat) :
    (contribOfSite (α := α) cfg (some (.standard c))).getD f 0
      = if flat cfg.outShape c = f ∧ InB cfg.outShape c then 1 else 0 := by
  simp only [contribOfSite]
  rw [getD_range_map]
  by_cases hf : f < size cfg.outShape
  · rw [if_pos hf]
  · rw [if_neg hf, if_neg]
    rintro ⟨e, hin⟩
    have := flat_lt _ _ hin
    omega

theorem contribOfSite_zero_getD (cfg : SiteCfg) (o : Option Site) (h : o = none ∨ o = some .insufficient) (f : Nat) :
    (contribOfSite (α := α) cfg o).getD f 0 = 0 := by
  rcases h with rfl | rfl <;> simp only [contribOfSite] <;> exact getD_replicate 0 _ _

theorem contribOfSite_insufficient (cfg : SiteCfg) :
    contribOfSite (α := α) cfg (some .insufficient) = List.replicate (size cfg.outShape) 0 := rfl

theorem contribOfSite_none (cfg : SiteCfg) :
    contribOfSite (α := α) cfg none = List.replicate (size cfg.outShape) 0 := rfl

/-- With a projection configured, the contribution of a projected site is what the projection iterator yields. -/
theorem contribOfSite_projected (cfg : SiteCfg) (pt t a : List Nat) (h : cfg.projectTo = some pt) :
    contribOfSite (α := α) cfg (some (.projected t a)) = projectIter t a pt := by
  rw [projectIter_eq]
  simp only [contribOfSite, SiteCfg.outShape, h, Option.getD_some]

theorem addOne_eq_contrib (cfg : SiteCfg) (scs : List α) (c : List Nat) (hs : scs.length = size cfg.outShape) :
    addOne cfg.outShape scs c = List.zipWith (· + ·) scs (contribOfSite cfg (some (.standard c))) :=
  addOne_eq_zipWith cfg.outShape scs c hs

/-! ### `siteSpec` case analysis -/

theorem siteSpec_projected (cfg : SiteCfg) (gts : List GtRes) (t a : List Nat)
    (h : siteSpec cfg gts = some (.projected t a)) :
    ∃ pt, cfg.projectTo = some pt ∧ t = calledTotals (numPops cfg.map) (selected cfg.map cfg.cols gts) ∧
      a = altCounts (numPops cfg.map) (selected cfg.map cfg.cols gts) ∧ t ≠ pt ∧
      (List.zipWith (fun t m => decide (m ≤ t)) t pt).all id = true := by
  unfold siteSpec at h
  simp only at h
  split at h
  · cases h
  · cases hq : cfg.projectTo with
    | none =>
      simp only [hq] at h
      split at h <;> cases h
    | some pt =>
      simp only [hq] at h
      refine ⟨pt, rfl, ?_⟩
      split at h
      · cases h
      · rename_i hne
        split at h
        · rename_i hall
          injection h with h; injection h with h1 h2
          subst h1; subst h2
          exact ⟨rfl, rfl, hne, hall⟩
        · cases h

theorem siteSpec_none_iff (cfg : SiteCfg) (gts : List GtRes) :
    siteSpec cfg gts = none ↔ hasPloidyError (selected cfg.map cfg.cols gts) = true := by
  unfold siteSpec
  simp only
  constructor
  · intro h
    split at h
    · assumption
    · split at h
      · split at h <;> cases h
      · split at h
        · cases h
        · split at h <;> cases h
  · intro h; rw [if_pos h]

/-- Without projection the site is decided by completeness alone. -/
theorem siteSpec_noproj (cfg : SiteCfg) (hnp : cfg.projectTo = none) (gts : List GtRes) :
    siteSpec cfg gts =
      if hasPloidyError (selected cfg.map cfg.cols gts) then none
      else if complete (selected cfg.map cfg.cols gts)
        then some (.standard (altCounts (numPops cfg.map) (selected cfg.map cfg.cols gts)))
        else some .insufficient := by
  unfold siteSpec
  simp only [hnp]

/-! ### entrywise sums of contributions -/

theorem foldr_add_eq_sum (l : List α) : l.foldr (· + ·) 0 = l.sum := rfl

theorem sumContrib_length (cfg : SiteCfg) (recs : List Rec) :
    (sumContrib (α := α) cfg recs).length = size cfg.outShape := by
  simp [sumContrib]

theorem sumContrib_getD (cfg : SiteCfg) (recs : List Rec) (f : Nat) :
    (sumContrib (α := α) cfg recs).getD f 0 = (recs.map (fun r => (recContrib (α := α) cfg r).getD f 0)).sum := by
  unfold sumContrib
  rw [getD_range_map, foldr_add_eq_sum]
  by_cases hf : f < size cfg.outShape
  · rw [if_pos hf]
  · rw [if_neg hf]
    symm
    apply List.sum_eq_zero
    intro x hx
    obtain ⟨r, _, rfl⟩ := List.mem_map.mp hx
    exact getD_of_le _ _ _ (by rw [recContrib_length]; omega)

theorem sumContrib_nil (cfg : SiteCfg) : sumContrib (α := α) cfg [] = List.replicate (size cfg.outShape) 0 := by
  apply list_ext_getD 0
  · simp [sumContrib_length]
  · intro j _
    rw [sumContrib_getD, getD_replicate]; rfl

theorem sumContrib_cons (cfg : SiteCfg) (r : Rec) (rs : List Rec) :
    sumContrib (α := α) cfg (r :: rs) = List.zipWith (· + ·) (recContrib cfg r) (sumContrib cfg rs) := by
  apply list_ext_getD 0
  · simp [sumContrib_length, recContrib_length]
  · intro j _
    rw [zipWith_add_getD _ _ (by rw [recContrib_length, sumContrib_length]), sumContrib_getD, sumContrib_getD,
      List.map_cons, List.sum_cons]

theorem sumContrib_append (cfg : SiteCfg) (a b : List Rec) :
    sumContrib (α := α) cfg (a ++ b) = List.zipWith (· + ·) (sumContrib cfg a) (sumContrib cfg b) := by
  apply list_ext_getD 0
  · simp [sumContrib_length]
  · intro j _
    rw [zipWith_add_getD _ _ (by rw [sumContrib_length, sumContrib_length]), sumContrib_getD, sumContrib_getD,
      sumContrib_getD, List.map_append, List.sum_append]

theorem sumContrib_perm (cfg : SiteCfg) (a b : List Rec) (hp : a.Perm b) :
    sumContrib (α := α) cfg a = sumContrib cfg b := by
  apply list_ext_getD 0
  · simp [sumContrib_length]
  · intro j _
    rw [sumContrib_getD, sumContrib_getD]
    exact (hp.map _).sum_eq

/-! ### the runner -/

/-- The invariant of the run state: spectrum and reader buffers have the right lengths. -/
def RunInv (cfg : SiteCfg) (st : RunSt α) : Prop :=
  st.scs.length = size cfg.outShape ∧ st.site.counts.length = numPops cfg.map ∧
    st.site.totals.length = numPops cfg.map

theorem runInv_init (cfg : SiteCfg) :
    RunInv cfg (⟨List.replicate (size cfg.outShape) 0, 0, 0, SiteSt.fresh (numPops cfg.map)⟩ : RunSt α) := by
  simp [RunInv, SiteSt.fresh]

/-- One iteration on a digestible record (in strict mode: one that is not skipped): the spectrum gains the record's
    contribution, whatever the state was. Only the last clause of `CfgOk` is needed. -/
theorem runStep_spec (cfg : SiteCfg) (hpt : ∀ pt, cfg.projectTo = some pt → pt.length = numPops cfg.map)
    (strict : Bool) (st : RunSt α) (hinv : RunInv cfg st) (r : Rec) (hok : recOk cfg r = true)
    (hstrict : strict = true → recSkipped cfg r = false) :
    ∃ st', runStep cfg strict st r = .ok st' ∧ RunInv cfg st' ∧
      st'.scs = List.zipWith (· + ·) st.scs (recContrib cfg r) ∧ st'.sites = st.sites + 1 ∧
      st'.skipped = st.skipped + (if recSkipped cfg r then 1 else 0) := by
  obtain ⟨hs, h1, h2⟩ := hinv
  cases r with
  | corrupt c p => simp [recOk] at hok
  | gts c p l =>
    have e := readSite_eq_spec cfg hpt st.site h1 h2 l
    obtain ⟨l1, l2⟩ := readSite_lengths cfg st.site l
    rw [h1] at l1; rw [h2] at l2
    simp only [runStep, recContrib, contrib]
    generalize readSite cfg st.site l = q at e l1 l2
    obtain ⟨o, s'⟩ := q
    simp only at e l1 l2
    subst e
    simp only [recOk] at hok
    cases hsite : siteSpec cfg l with
    | none => rw [hsite] at hok; cases hok
    | some site =>
      cases site with
      | standard counts =>
        refine ⟨_, rfl, ⟨?_, l1, l2⟩, ?_, rfl, ?_⟩
        · simp [addOne_length, hs]
        · exact addOne_eq_contrib cfg st.scs counts hs
        · simp [recSkipped, hsite]
      | projected totals counts =>
        obtain ⟨pt, hq, _⟩ := siteSpec_projected cfg l totals counts hsite
        have hc : contribOfSite (α := α) cfg (some (.projected totals counts)) = projectIter totals counts pt :=
          contribOfSite_projected cfg pt totals counts hq
        have hlen : (projectIter totals counts pt : List α).length = st.scs.length := by
          rw [← hc, contribOfSite_length, hs]
        refine ⟨_, rfl, ⟨?_, l1, l2⟩, ?_, rfl, ?_⟩
        · simp [addProjected_length, hs]
        · simp only [hq, Option.getD_some]
          rw [hc]
          exact addProjected_one_eq_zipWith _ _ hlen
        · simp [recSkipped, hsite]
      | insufficient =>
        have hsk : recSkipped cfg (.gts c p l) = true := by simp [recSkipped, hsite]
        cases strict with
        | true => simp [hsk] at hstrict
        | false =>
          refine ⟨_, rfl, ⟨hs, l1, l2⟩, ?_, rfl, ?_⟩
          · rw [contribOfSite_insufficient]
            exact (zipWith_add_zero_right _ _ hs).symm
          · simp [hsk]

/-- The generalised induction hypothesis of `run_eq_sum`: from an arbitrary state, the loop adds the sum of the
    contributions (`strict = false`, or `strict = true` and no record is skipped). -/
theorem runLoop_spec (cfg : SiteCfg) (hpt : ∀ pt, cfg.projectTo = some pt → pt.length = numPops cfg.map)
    (strict : Bool) : ∀ (recs : List Rec) (st : RunSt α), RunInv cfg st → (∀ r ∈ recs, recOk cfg r = true) →
    (strict = true → ∀ r ∈ recs, recSkipped cfg r = false) →
    ∃ st', runLoop cfg strict st recs = .ok st' ∧ RunInv cfg st' ∧
      st'.scs = List.zipWith (· + ·) st.scs (sumContrib cfg recs) ∧ st'.sites = st.sites + recs.length ∧
      st'.skipped = st.skipped + (recs.filter (recSkipped cfg)).length
  | [], st, hinv, _, _ => by
    refine ⟨st, rfl, hinv, ?_, rfl, rfl⟩
    rw [sumContrib_nil]
    exact (zipWith_add_zero_right _ _ hinv.1).symm
  | r :: rs, st, hinv, hok, hstrict => by
    obtain ⟨st1, e1, inv1, s1, n1, k1⟩ := runStep_spec cfg hpt strict st hinv r (hok r (by simp))
      (fun h => hstrict h r (by simp))
    obtain ⟨st2, e2, inv2, s2, n2, k2⟩ := runLoop_spec cfg hpt strict rs st1 inv1
      (fun x hx => hok x (by simp [hx])) (fun h x hx => hstrict h x (by simp [hx]))
    refine ⟨st2, ?_, inv2, ?_, ?_, ?_⟩
    · simp only [runLoop, e1, e2]
    · rw [s2, s1, sumContrib_cons,
        zipWith_add_assoc _ _ _ (by rw [hinv.1, recContrib_length]) (by rw [recContrib_length, sumContrib_length])]
    · rw [n2, n1, List.length_cons]; omega
    · rw [k2, k1, List.filter_cons]
      by_cases hsk : recSkipped cfg r = true
      · simp [hsk]; omega
      · simp [hsk]

/-- `createRun` on digestible records. -/
theorem createRun_spec (cfg : SiteCfg) (hpt : ∀ pt, cfg.projectTo = some pt → pt.length = numPops cfg.map)
    (strict : Bool) (recs : List Rec) (hok : ∀ r ∈ recs, recOk cfg r = true)
    (hstrict : strict = true → ∀ r ∈ recs, recSkipped cfg r = false) :
    createRun (α := α) cfg strict recs
      = .ok (sumContrib cfg recs, recs.length, (recs.filter (recSkipped cfg)).length) := by
  obtain ⟨st', e, _, s, n, k⟩ := runLoop_spec (α := α) cfg hpt strict recs _ (runInv_init cfg) hok hstrict
  simp only [createRun, e, s, n, k, Nat.zero_add]
  rw [zipWith_add_zero_left _ _ (sumContrib_length cfg recs)]

end field

/-! ### C01: unselected columns, bounds -/

theorem selected_congr (map : List (String × Nat)) : ∀ (cols : List String) (gts gts' : List GtRes),
    gts.length = cols.length → gts'.length = cols.length →
    (∀ i, i < cols.length → (lookupPop map (cols.getD i "")).isSome →
      gts.getD i .ploidyError = gts'.getD i .ploidyError) →
    selected map cols gts = selected map cols gts'
  | [], _, _, _, _, _ => by rw [selected_nil_left, selected_nil_left]
  | c :: cs, [], _, h, _, _ => by simp at h
  | c :: cs, _ :: _, [], _, h, _ => by simp at h
  | c :: cs, g :: gs, g' :: gs', hl, hl', h => by
    have ih := selected_congr map cs gs gs' (by simpa using hl) (by simpa using hl')
      (fun i hi hs => by simpa using h (i + 1) (by simpa using hi) (by simpa using hs))
    cases hp : lookupPop map c with
    | none => rw [selected_cons_none _ _ _ _ _ hp, selected_cons_none _ _ _ _ _ hp, ih]
    | some pid =>
      have : g = g' := by simpa using h 0 (by simp) (by simp [hp])
      rw [selected_cons_some _ _ _ _ _ pid hp, selected_cons_some _ _ _ _ _ pid hp, ih, this]

theorem siteSpec_congr (cfg : SiteCfg) (gts gts' : List GtRes)
    (h : selected cfg.map cfg.cols gts = selected cfg.map cfg.cols gts') : siteSpec cfg gts = siteSpec cfg gts' := by
  unfold siteSpec; rw [h]

theorem InB_iff_getD : ∀ (s idx : List Nat),
    InB s idx ↔ idx.length = s.length ∧ ∀ j, j < s.length → idx.getD j 0 < s.getD j 0
  | [], [] => by simp [InB]
  | [], _ :: _ => by simp [InB]
  | _ :: _, [] => by simp [InB]
  | v :: s, i :: idx => by
    simp only [InB, InB_iff_getD s idx, List.length_cons, Nat.add_right_cancel_iff]
    constructor
    · rintro ⟨h0, hl, h⟩
      refine ⟨hl, fun j hj => ?_⟩
      cases j with
      | zero => simpa using h0
      | succ j => simpa using h j (by omega)
    · rintro ⟨hl, h⟩
      refine ⟨by simpa using h 0 (by omega), hl, fun j hj => ?_⟩
      simpa using h (j + 1) (by omega)

theorem InB_range_map (n : Nat) (s a : Nat → Nat) (h : ∀ j, j < n → a j < s j) :
    InB ((List.range n).map s) ((List.range n).map a) := by
  rw [InB_iff_getD]
  refine ⟨by simp, fun j hj => ?_⟩
  have hj' : j < n := by simpa using hj
  rw [getD_range_map, getD_range_map, if_pos hj', if_pos hj']
  exact h j hj'

theorem flat_inj (s a b : List Nat) (ha : InB s a) (hb : InB s b) (h : flat s a = flat s b) : a = b := by
  rw [← unflat_flat s a ha, ← unflat_flat s b hb, h]

theorem popSum_filterMap_le (map : List (String × Nat)) (f : GtRes → Nat) (B j : Nat) :
    ∀ Z : List (String × GtRes), (∀ cg ∈ Z, f cg.2 ≤ B) →
    popSum f (Z.filterMap (fun cg => (lookupPop map cg.1).map (fun pid => (pid, cg.2)))) j
      ≤ B * (Z.filter (fun cg => lookupPop map cg.1 = some j)).length
  | [], _ => by simp [popSum_nil]
  | cg :: Z, h => by
    have ih := popSum_filterMap_le map f B j Z (fun x hx => h x (by simp [hx]))
    have h0 := h cg (by simp)
    cases hp : lookupPop map cg.1 with
    | none => simpa [List.filterMap_cons, hp, List.filter_cons] using ih
    | some pid =>
      simp only [List.filterMap_cons, hp, Option.map_some, popSum_cons, List.filter_cons]
      by_cases e : pid = j
      · subst e
        simp only [if_true, decide_true, List.length_cons, Nat.mul_add, Nat.mul_one]
        omega
      · have : ¬ (some pid = some j) := by simpa using e
        simp only [e, this, if_false, decide_false, Nat.zero_add]
        simpa using ih

theorem lookupPop_some (map : List (String × Nat)) (c : String) (j : Nat) (h : lookupPop map c = some j) :
    (c, j) ∈ map := by
  unfold lookupPop at h
  cases hf : map.find? (fun p => p.1 = c) with
  | none => rw [hf] at h; cases h
  | some p =>
    rw [hf] at h
    have h1 := List.find?_some hf
    have h2 := List.mem_of_find?_eq_some hf
    have h3 : p.2 = j := by simpa using h
    have h4 : p.1 = c := by simpa using h1
    obtain ⟨x, y⟩ := p
    simp only at h3 h4
    subst h3; subst h4
    exact h2

/-- Distinct columns looked up into population `j` are at most the listed samples of population `j`. -/
theorem cols_filter_le (map : List (String × Nat)) (cols : List String) (hnd : cols.Nodup) (j : Nat) :
    (cols.filter (fun c => lookupPop map c = some j)).length ≤ (map.filter (fun p => p.2 = j)).length := by
  have hnd' : (cols.filter (fun c => lookupPop map c = some j)).Nodup := hnd.sublist List.filter_sublist
  have hsub : cols.filter (fun c => lookupPop map c = some j) ⊆ (map.filter (fun p => p.2 = j)).map (·.1) := by
    intro c hc
    have := (List.mem_filter.mp hc).2
    have hm := lookupPop_some map c j (by simpa using this)
    exact List.mem_map.mpr ⟨(c, j), List.mem_filter.mpr ⟨hm, by simp⟩, rfl⟩
  have := (List.subperm_of_subset hnd' hsub).length_le
  simpa using this

theorem altOf_le (gts : List GtRes) (h : ∀ k, GtRes.genotype k ∈ gts → k ≤ 2) (g : GtRes) (hg : g ∈ gts) :
    altOf g ≤ 2 := by
  cases g with
  | genotype k => exact h k hg
  | skipped s => simp [altOf]
  | ploidyError => simp [altOf]

/-- Population `j` carries at most twice its number of listed samples. -/
theorem popSum_altOf_le (map : List (String × Nat)) (cols : List String) (hnd : cols.Nodup) (gts : List GtRes)
    (hl : gts.length = cols.length) (h : ∀ k, GtRes.genotype k ∈ gts → k ≤ 2) (j : Nat) :
    popSum altOf (selected map cols gts) j ≤ 2 * (map.filter (fun p => p.2 = j)).length := by
  have h1 := popSum_filterMap_le map altOf 2 j (cols.zip gts)
    (fun cg hcg => altOf_le gts h cg.2 (List.of_mem_zip (a := cg.1) (b := cg.2) hcg).2)
  have h2 : ((cols.zip gts).filter (fun cg => lookupPop map cg.1 = some j)).length
      = (cols.filter (fun c => lookupPop map c = some j)).length := by
    have := List.filter_map (f := Prod.fst) (p := fun c => decide (lookupPop map c = some j)) (l := cols.zip gts)
    rw [List.map_fst_zip (by omega)] at this
    rw [this, List.length_map]
    rfl
  have h3 := cols_filter_le map cols hnd j
  unfold selected
  omega

theorem alt_in_bounds (cfg : SiteCfg) (hnd : cfg.cols.Nodup) (hnp : cfg.projectTo = none) (gts : List GtRes)
    (hl : gts.length = cfg.cols.length) (h : ∀ k, GtRes.genotype k ∈ gts → k ≤ 2) :
    InB cfg.outShape (altCounts (numPops cfg.map) (selected cfg.map cfg.cols gts)) := by
  simp only [SiteCfg.outShape, hnp, mapShape, altCounts_eq]
  apply InB_range_map
  intro j _
  have := popSum_altOf_le cfg.map cfg.cols hnd gts hl h j
  omega

/-! ### C01: the run without projection is a count -/

/-- The records counted at entry `k`: complete, with ALT counts `k`. -/
def countsAt (cfg : SiteCfg) (k : List Nat) (r : Rec) : Bool :=
  match gtsOf r with
  | some l => complete (selected cfg.map cfg.cols l) ∧ altCounts (numPops cfg.map) (selected cfg.map cfg.cols l) = k
  | none => false

section field
variable {α : Type} [Field α]

theorem sum_indicator {β} (p : β → Bool) : ∀ l : List β,
    (l.map (fun r => if p r then (1 : α) else 0)).sum = (((l.filter p).length : Nat) : α)
  | [] => by simp
  | r :: l => by
    rw [List.map_cons, List.sum_cons, sum_indicator p l, List.filter_cons]
    by_cases h : p r = true
    · simp [h, add_comm]
    · simp [h]

theorem sum_zipWith_add : ∀ (a b : List α), a.length = b.length →
    (List.zipWith (· + ·) a b).sum = a.sum + b.sum
  | [], [], _ => by simp
  | x :: a, y :: b, h => by
    rw [List.zipWith_cons_cons, List.sum_cons, List.sum_cons, List.sum_cons,
      sum_zipWith_add a b (by simpa using h)]
    exact add_add_add_comm x y a.sum b.sum
  | [], _ :: _, h => by simp at h
  | _ :: _, [], h => by simp at h

/-- Without projection, a digestible well-formed record contributes the indicator of its ALT index if it is complete
    and nothing otherwise. -/
theorem recContrib_noproj (cfg : SiteCfg) (hnd : cfg.cols.Nodup) (hnp : cfg.projectTo = none) (r : Rec)
    (hwf : RecWf cfg r) (hok : recOk cfg r = true) :
    (recSkipped cfg r = true ∧ recContrib (α := α) cfg r = List.replicate (size cfg.outShape) 0 ∧
        ∀ k, countsAt cfg k r = false) ∨
    (recSkipped cfg r = false ∧ ∃ a, InB cfg.outShape a ∧
        recContrib (α := α) cfg r = (List.range (size cfg.outShape)).map (fun f => if flat cfg.outShape a = f then 1 else 0) ∧
        ∀ k, countsAt cfg k r = decide (a = k)) := by
  cases r with
  | corrupt c p => simp [recOk] at hok
  | gts c p l =>
    simp only [recOk, siteSpec_noproj cfg hnp l] at hok
    have hpe : hasPloidyError (selected cfg.map cfg.cols l) = false := by
      cases hh : hasPloidyError (selected cfg.map cfg.cols l) with
      | false => rfl
      | true => rw [hh] at hok; simp at hok
    have hs := siteSpec_noproj cfg hnp l
    rw [hpe] at hs
    simp only [Bool.false_eq_true, if_false] at hs
    cases hcmp : complete (selected cfg.map cfg.cols l) with
    | false =>
      left
      rw [hcmp] at hs
      simp only [Bool.false_eq_true, if_false] at hs
      refine ⟨by simp [recSkipped, hs], by simp only [recContrib, contrib, hs, contribOfSite_insufficient], ?_⟩
      intro k; simp [countsAt, gtsOf, hcmp]
    | true =>
      right
      rw [hcmp] at hs
      simp only [if_true] at hs
      have hin := alt_in_bounds cfg hnd hnp l hwf.1 hwf.2
      refine ⟨by simp [recSkipped, hs], _, hin, ?_, ?_⟩
      · simp only [recContrib, contrib, hs, contribOfSite, hin, and_true]
      · intro k; simp [countsAt, gtsOf, hcmp]

theorem recContrib_noproj_getD (cfg : SiteCfg) (hnd : cfg.cols.Nodup) (hnp : cfg.projectTo = none) (r : Rec)
    (hwf : RecWf cfg r) (hok : recOk cfg r = true) (k : List Nat) (hk : InB cfg.outShape k) :
    (recContrib (α := α) cfg r).getD (flat cfg.outShape k) 0 = if countsAt cfg k r then 1 else 0 := by
  rcases recContrib_noproj (α := α) cfg hnd hnp r hwf hok with ⟨_, h2, h3⟩ | ⟨_, a, hin, h2, h3⟩
  · rw [h2, h3 k, getD_replicate]; simp
  · rw [h2, h3 k, getD_range_map, if_pos (flat_lt _ _ hk)]
    by_cases e : a = k
    · simp [e]
    · have : flat cfg.outShape a ≠ flat cfg.outShape k := fun h => e (flat_inj _ _ _ hin hk h)
      simp [e, this]

theorem recContrib_noproj_sum (cfg : SiteCfg) (hnd : cfg.cols.Nodup) (hnp : cfg.projectTo = none) (r : Rec)
    (hwf : RecWf cfg r) (hok : recOk cfg r = true) :
    (recContrib (α := α) cfg r).sum = if recSkipped cfg r then 0 else 1 := by
  rcases recContrib_noproj (α := α) cfg hnd hnp r hwf hok with ⟨h1, h2, _⟩ | ⟨h1, a, hin, h2, _⟩
  · rw [h2, h1]; simp
  · rw [h2, h1, list_range_sum, Finset.sum_ite_eq]
    simp [flat_lt _ _ hin]

/-- Entry `k` of the sum of contributions is the number of complete records with ALT counts `k`. -/
theorem sumContrib_noproj_getD (cfg : SiteCfg) (hnd : cfg.cols.Nodup) (hnp : cfg.projectTo = none) (recs : List Rec)
    (hwf : ∀ r ∈ recs, RecWf cfg r) (hok : ∀ r ∈ recs, recOk cfg r = true) (k : List Nat)
    (hk : InB cfg.outShape k) :
    (sumContrib (α := α) cfg recs).getD (flat cfg.outShape k) 0 = (((recs.filter (countsAt cfg k)).length : Nat) : α) := by
  rw [sumContrib_getD, ← sum_indicator]
  congr 1
  apply List.map_congr_left
  intro r hr
  exact recContrib_noproj_getD cfg hnd hnp r (hwf r hr) (hok r hr) k hk

theorem sumContrib_noproj_sum (cfg : SiteCfg) (hnd : cfg.cols.Nodup) (hnp : cfg.projectTo = none) :
    ∀ (recs : List Rec), (∀ r ∈ recs, RecWf cfg r) → (∀ r ∈ recs, recOk cfg r = true) →
    (sumContrib (α := α) cfg recs).sum = ((recs.length - (recs.filter (recSkipped cfg)).length : Nat) : α)
  | [], _, _ => by simp [sumContrib_nil]
  | r :: rs, hwf, hok => by
    have ih := sumContrib_noproj_sum cfg hnd hnp rs (fun x hx => hwf x (by simp [hx])) (fun x hx => hok x (by simp [hx]))
    have hle := List.length_filter_le (recSkipped cfg) rs
    rw [sumContrib_cons, sum_zipWith_add _ _ (by rw [recContrib_length, sumContrib_length]), ih,
      recContrib_noproj_sum cfg hnd hnp r (hwf r (by simp)) (hok r (by simp)), List.filter_cons]
    by_cases hsk : recSkipped cfg r = true
    · simp [hsk]
    · have hsk' : recSkipped cfg r = false := by simpa using hsk
      simp only [hsk', Bool.false_eq_true, if_false, List.length_cons]
      rw [show rs.length + 1 - (rs.filter (recSkipped cfg)).length
        = (rs.length - (rs.filter (recSkipped cfg)).length) + 1 by omega]
      push_cast
      exact add_comm _ _

end field

/-! ### the sample map and `buildSite` -/

theorem indexMapInsert_keys {κ ν} [DecidableEq κ] (m : List (κ × ν)) (k : κ) (v : ν) :
    (indexMapInsert m k v).map (·.1) = if k ∈ m.map (·.1) then m.map (·.1) else m.map (·.1) ++ [k] := by
  unfold indexMapInsert
  have hany : (m.any (fun p => decide (p.1 = k))) = true ↔ k ∈ m.map (·.1) := by
    simp only [List.any_eq_true, decide_eq_true_eq, List.mem_map]
  by_cases h : k ∈ m.map (·.1)
  · rw [if_pos (hany.mpr h), if_pos h, List.map_map]
    apply List.map_congr_left
    intro p _
    by_cases e : p.1 = k <;> simp [e]
  · rw [if_neg (mt hany.mp h), if_neg h]; simp

theorem indexMap_foldl_nodup {κ ν} [DecidableEq κ] : ∀ (l m : List (κ × ν)), (m.map (·.1)).Nodup →
    ((l.foldl (fun m p => indexMapInsert m p.1 p.2) m).map (·.1)).Nodup
  | [], _, h => h
  | p :: l, m, h => by
    rw [List.foldl_cons]
    apply indexMap_foldl_nodup l
    rw [indexMapInsert_keys]
    split
    · exact h
    · rename_i hk
      rw [List.nodup_append]
      exact ⟨h, by simp, by intro a ha b hb; simp at hb; subst hb; exact fun e => hk (e ▸ ha)⟩

theorem indexMapOfList_nodup {κ ν} [DecidableEq κ] (l : List (κ × ν)) : ((indexMapOfList l).map (·.1)).Nodup :=
  indexMap_foldl_nodup l [] (by simp)

theorem distinct_foldl_mem {κ} [DecidableEq κ] : ∀ (l acc : List κ) (x : κ),
    x ∈ l.foldl (fun acc x => if acc.contains x then acc else acc ++ [x]) acc ↔ x ∈ acc ∨ x ∈ l
  | [], acc, x => by simp
  | y :: l, acc, x => by
    rw [List.foldl_cons, distinct_foldl_mem l]
    by_cases h : acc.contains y = true
    · rw [if_pos h]
      have hy := List.contains_iff_mem.mp h
      simp only [List.mem_cons]
      constructor
      · rintro (h1 | h1)
        · exact Or.inl h1
        · exact Or.inr (Or.inr h1)
      · rintro (h1 | h1 | h1)
        · exact Or.inl h1
        · exact Or.inl (h1 ▸ hy)
        · exact Or.inr h1
    · rw [if_neg h]
      simp [or_assoc]

theorem mem_distinctInOrder {κ} [DecidableEq κ] (l : List κ) (x : κ) : x ∈ distinctInOrder l ↔ x ∈ l := by
  unfold distinctInOrder
  rw [distinct_foldl_mem]; simp

theorem distinct_foldl_map {κ μ} [DecidableEq κ] [DecidableEq μ] (f : κ → μ) : ∀ (l acc : List κ),
    (∀ x y, (x ∈ acc ∨ x ∈ l) → (y ∈ acc ∨ y ∈ l) → f x = f y → x = y) →
    (l.map f).foldl (fun acc x => if acc.contains x then acc else acc ++ [x]) (acc.map f)
      = (l.foldl (fun acc x => if acc.contains x then acc else acc ++ [x]) acc).map f
  | [], _, _ => rfl
  | y :: l, acc, hinj => by
    simp only [List.map_cons, List.foldl_cons]
    have hc : (acc.map f).contains (f y) = acc.contains y := by
      rw [Bool.eq_iff_iff, List.contains_iff_mem, List.contains_iff_mem, List.mem_map]
      constructor
      · rintro ⟨x, hx, e⟩
        have := hinj x y (Or.inl hx) (Or.inr (by simp)) e
        subst this; exact hx
      · intro h; exact ⟨y, h, rfl⟩
    rw [hc]
    by_cases h : acc.contains y = true
    · rw [if_pos h, if_pos h]
      exact distinct_foldl_map f l acc (fun x z hx hz => hinj x z
        (hx.elim Or.inl (fun h => Or.inr (by simp [h]))) (hz.elim Or.inl (fun h => Or.inr (by simp [h]))))
    · rw [if_neg h, if_neg h]
      have := distinct_foldl_map f l (acc ++ [y]) (fun x z hx hz => hinj x z
        (by rcases hx with hx | hx
            · rcases List.mem_append.mp hx with hx | hx
              · exact Or.inl hx
              · exact Or.inr (by simp at hx; simp [hx])
            · exact Or.inr (by simp [hx]))
        (by rcases hz with hz | hz
            · rcases List.mem_append.mp hz with hz | hz
              · exact Or.inl hz
              · exact Or.inr (by simp at hz; simp [hz])
            · exact Or.inr (by simp [hz])))
      rw [List.map_append] at this
      exact this

theorem distinctInOrder_map {κ μ} [DecidableEq κ] [DecidableEq μ] (f : κ → μ) (l : List κ)
    (hinj : ∀ x y, x ∈ l → y ∈ l → f x = f y → x = y) :
    distinctInOrder (l.map f) = (distinctInOrder l).map f := by
  unfold distinctInOrder
  exact distinct_foldl_map f l [] (fun x y hx hy => hinj x y (by simpa using hx) (by simpa using hy))

/-- The number of populations of a sample map is the number of distinct labels of the resolved samples. -/
theorem numPops_sampleMap (l : List (String × Pop)) :
    numPops (sampleMap l) = (distinctInOrder ((indexMapOfList l).map (·.2))).length := by
  unfold numPops sampleMap
  simp only [List.map_map]
  have : ((fun p : String × Nat => p.2) ∘ fun p : String × Pop =>
      (p.1, List.idxOf p.2 (distinctInOrder ((indexMapOfList l).map (·.2)))))
      = (fun x => List.idxOf x (distinctInOrder ((indexMapOfList l).map (·.2)))) ∘ (·.2) := rfl
  rw [this, ← List.map_map, distinctInOrder_map, List.length_map]
  intro x y hx hy e
  exact (List.idxOf_inj ((mem_distinctInOrder _ x).mpr hx)).mp e

theorem sampleMap_keys_nodup (l : List (String × Pop)) : ((sampleMap l).map (·.1)).Nodup := by
  unfold sampleMap
  simp only [List.map_map]
  exact indexMapOfList_nodup l

theorem sampleMap_snd_lt (l : List (String × Pop)) : ∀ p ∈ sampleMap l, p.2 < numPops (sampleMap l) := by
  intro p hp
  rw [numPops_sampleMap]
  unfold sampleMap at hp
  obtain ⟨q, hq, rfl⟩ := List.mem_map.mp hp
  apply List.idxOf_lt_length_of_mem
  rw [mem_distinctInOrder]
  exact List.mem_map.mpr ⟨q, hq, rfl⟩

theorem mapShape_length (m : List (String × Nat)) : (mapShape m).length = numPops m := by
  simp [mapShape]

theorem buildSite_inv_some (l : List (String × Pop)) (project : Option (List Nat)) (cols : List String)
    (cfg : SiteCfg) (h : buildSite (some l) project cols = .ok cfg) :
    (∃ l, cfg.map = sampleMap l) ∧ cfg.cols = cols ∧ (∀ p ∈ cfg.map, p.1 ∈ cols) ∧
    (∀ pt, cfg.projectTo = some pt → pt.length = numPops cfg.map) ∧ (project = none → cfg.projectTo = none) := by
  simp only [buildSite] at h
  have hm : ∃ l', sampleMap l = sampleMap l' := ⟨l, rfl⟩
  generalize sampleMap l = map at h hm
  by_cases hemp : map.isEmpty = true
  · rw [if_pos hemp] at h; cases h
  · rw [if_neg hemp] at h
    cases hfind : map.find? (fun p => !cols.contains p.1) with
    | some p => rw [hfind] at h; cases h
    | none =>
      rw [hfind] at h
      have hmem : ∀ p ∈ map, p.1 ∈ cols := by
        intro p hp
        have := List.find?_eq_none.mp hfind p hp
        simpa using this
      cases project with
      | none =>
        simp only at h
        injection h with h; subst h
        refine ⟨hm, rfl, hmem, ?_, fun _ => rfl⟩
        intro pt hpt; cases hpt
      | some toShape =>
        simp only at h
        by_cases hlen : (mapShape map).length ≠ toShape.length
        · rw [if_pos hlen] at h; cases h
        · rw [if_neg hlen] at h
          cases hfs : firstSmaller (mapShape map) toShape 0 with
          | some q => rw [hfs] at h; cases h
          | none =>
            rw [hfs] at h
            cases hcs : countOfShape toShape with
            | none => rw [hcs] at h; cases h
            | some pt =>
              rw [hcs] at h
              simp only at h
              injection h with h; subst h
              refine ⟨hm, rfl, hmem, ?_, by intro h; cases h⟩
              intro pt' hpt'
              simp only [Option.some.injEq] at hpt'
              subst hpt'
              have := ((countOfShape_some_iff toShape pt).mp hcs).2
              rw [this, List.length_map, ← mapShape_length]
              simpa using (not_not.mp hlen).symm

/-- What a successful `buildSite` returns. -/
theorem buildSite_inv (samples : Option (List (String × Pop))) (project : Option (List Nat)) (cols : List String)
    (cfg : SiteCfg) (h : buildSite samples project cols = .ok cfg) :
    (∃ l, cfg.map = sampleMap l) ∧ cfg.cols = cols ∧ (∀ p ∈ cfg.map, p.1 ∈ cols) ∧
    (∀ pt, cfg.projectTo = some pt → pt.length = numPops cfg.map) ∧ (project = none → cfg.projectTo = none) := by
  cases samples with
  | none => exact buildSite_inv_some _ project cols cfg h
  | some l => exact buildSite_inv_some l project cols cfg h

theorem buildSite_ok (samples : Option (List (String × Pop))) (project : Option (List Nat)) (cols : List String)
    (hnd : cols.Nodup) (cfg : SiteCfg) (h : buildSite samples project cols = .ok cfg) : CfgOk cfg := by
  obtain ⟨⟨l, hl⟩, hcols, hmem, hpt, _⟩ := buildSite_inv samples project cols cfg h
  refine ⟨hcols ▸ hnd, hcols ▸ hmem, ?_, ?_, hpt⟩
  · rw [hl]; exact sampleMap_keys_nodup l
  · rw [hl]; exact sampleMap_snd_lt l

theorem buildSite_shape (samples : Option (List (String × Pop))) (cols : List String) (cfg : SiteCfg)
    (h : buildSite samples none cols = .ok cfg) :
    cfg.outShape = (List.range (numPops cfg.map)).map (fun j => 2 * (cfg.map.filter (fun p => p.2 = j)).length + 1) := by
  obtain ⟨_, _, _, _, hnp⟩ := buildSite_inv samples none cols cfg h
  simp only [SiteCfg.outShape, hnp rfl, mapShape]
  apply List.map_congr_left
  intro j _
  omega

end Sfs
