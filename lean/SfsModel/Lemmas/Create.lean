/-
Helper lemmas for the create run: the column loop `tally` against the order-free specification, `readSite` = `siteSpec`,
the runner loop as a sum of contributions.
-/
import SfsModel.Model.Create
import SfsModel.Spec.Create
import SfsModel.Lemmas.Index
import SfsModel.Lemmas.SumBox
import SfsModel.Lemmas.Hyper
import Mathlib.Algebra.Field.Basic
import Mathlib.Algebra.CharZero.Defs
import Mathlib.Algebra.BigOperators.Group.List.Basic
import Mathlib.Algebra.BigOperators.Group.Finset.Basic
namespace Sfs
open Sfs.Spec

/-! ### the selected pairs -/

theorem selected_nil_left (map : List (String × Nat)) (gts : List GtRes) : selected map [] gts = [] := by
  simp [selected]

theorem selected_nil_right (map : List (String × Nat)) (cols : List String) : selected map cols [] = [] := by
  simp [selected]

theorem selected_cons_none (map : List (String × Nat)) (c : String) (cs : List String) (g : GtRes) (gs : List GtRes)
    (h : lookupPop map c = none) : selected map (c :: cs) (g :: gs) = selected map cs gs := by
  simp [selected, h]

theorem selected_cons_some (map : List (String × Nat)) (c : String) (cs : List String) (g : GtRes) (gs : List GtRes)
    (pid : Nat) (h : lookupPop map c = some pid) :
    selected map (c :: cs) (g :: gs) = (pid, g) :: selected map cs gs := by
  simp [selected, h]

/-! ### `bump` -/

theorem bump_length (l : List Nat) (i k : Nat) : (bump l i k).length = l.length := by
  simp [bump]

theorem bump_getD (l : List Nat) (i k j : Nat) (hj : j < l.length) :
    (bump l i k).getD j 0 = l.getD j 0 + if i = j then k else 0 := by
  unfold bump
  rw [List.getD_eq_getElem?_getD, List.getD_eq_getElem?_getD, List.getElem?_set]
  by_cases e : i = j
  · subst e; simp [hj]
  · simp [e]

/-- Sum over the selected pairs of population `j` of a per-genotype weight. -/
def popSum (f : GtRes → Nat) (sel : List (Nat × GtRes)) (j : Nat) : Nat :=
  ((sel.filter (fun p => p.1 = j)).map (fun p => f p.2)).sum

theorem popSum_nil (f : GtRes → Nat) (j : Nat) : popSum f [] j = 0 := rfl

theorem popSum_cons (f : GtRes → Nat) (p : Nat × GtRes) (sel : List (Nat × GtRes)) (j : Nat) :
    popSum f (p :: sel) j = (if p.1 = j then f p.2 else 0) + popSum f sel j := by
  unfold popSum
  by_cases e : p.1 = j <;> simp [e]

theorem altCounts_eq (npop : Nat) (sel : List (Nat × GtRes)) :
    altCounts npop sel = (List.range npop).map (popSum altOf sel) := rfl

theorem calledTotals_eq (npop : Nat) (sel : List (Nat × GtRes)) :
    calledTotals npop sel = (List.range npop).map (popSum calledOf sel) := rfl

/-! ### the column loop -/

/-- What `tally` computes from an arbitrary starting state, in terms of the selected pairs. -/
theorem tally_spec (map : List (String × Nat)) (cols : List String) (gts : List GtRes) (st : SiteSt) :
    (tally map cols gts st = none ↔ hasPloidyError (selected map cols gts) = true) ∧
    ∀ st1, tally map cols gts st = some st1 →
      st1.counts.length = st.counts.length ∧ st1.totals.length = st.totals.length ∧
      (∀ j, j < st.counts.length →
        st1.counts.getD j 0 = st.counts.getD j 0 + popSum altOf (selected map cols gts) j) ∧
      (∀ j, j < st.totals.length →
        st1.totals.getD j 0 = st.totals.getD j 0 + popSum calledOf (selected map cols gts) j) ∧
      st1.skipped.isEmpty = (st.skipped.isEmpty && complete (selected map cols gts)) := by
  fun_induction tally map cols gts st with
  | case1 c cs g gs st hl ih =>
    rw [selected_cons_none _ _ _ _ _ hl]; exact ih
  | case2 c cs gs st pid hl k ih =>
    rw [selected_cons_some _ _ _ _ _ pid hl]
    obtain ⟨ih1, ih2⟩ := ih
    refine ⟨?_, ?_⟩
    · rw [ih1]; simp [hasPloidyError]
    · intro st1 h
      obtain ⟨a, b, c', d, e⟩ := ih2 st1 h
      simp only [bump_length] at a b c' d
      refine ⟨a, b, ?_, ?_, ?_⟩
      · intro j hj
        rw [c' j hj, bump_getD _ _ _ _ hj, popSum_cons]
        simp only [altOf]; omega
      · intro j hj
        rw [d j hj, bump_getD _ _ _ _ hj, popSum_cons]
        simp only [calledOf]; omega
      · rw [e]; simp [complete]
  | case3 c cs gs st pid hl s ih =>
    rw [selected_cons_some _ _ _ _ _ pid hl]
    obtain ⟨ih1, ih2⟩ := ih
    refine ⟨?_, ?_⟩
    · rw [ih1]; simp [hasPloidyError]
    · intro st1 h
      obtain ⟨a, b, c', d, e⟩ := ih2 st1 h
      refine ⟨a, b, ?_, ?_, ?_⟩
      · intro j hj
        rw [c' j hj, popSum_cons]
        simp [altOf]
      · intro j hj
        rw [d j hj, popSum_cons]
        simp [calledOf]
      · rw [e]; simp [complete]
  | case4 c cs gs st pid hl =>
    rw [selected_cons_some _ _ _ _ _ pid hl]
    simp [hasPloidyError]
  | case5 cols gts st hne =>
    have hs : selected map cols gts = [] := by
      cases cols with
      | nil => exact selected_nil_left _ _
      | cons c cs =>
        cases gts with
        | nil => exact selected_nil_right _ _
        | cons g gs => exact absurd rfl (hne c cs g gs rfl)
    rw [hs]
    simp [hasPloidyError, complete, popSum_nil]

/-! ### `read_site` -/

theorem list_ext_getD {β} (d : β) (a b : List β) (h : a.length = b.length)
    (h' : ∀ j, j < a.length → a.getD j d = b.getD j d) : a = b := by
  apply List.ext_getElem h
  intro j h1 h2
  have := h' j h1
  rw [List.getD_eq_getElem?_getD, List.getD_eq_getElem?_getD, List.getElem?_eq_getElem h1,
    List.getElem?_eq_getElem h2] at this
  simpa using this

theorem zipWith_eq_all : ∀ (a b : List Nat), a.length = b.length →
    (List.zipWith (fun t m => decide (t = m)) a b).all id = decide (a = b)
  | [], [], _ => by simp
  | x :: a, y :: b, h => by
    have ih := zipWith_eq_all a b (by simpa using h)
    simp only [List.zipWith_cons_cons, List.all_cons, ih, id]
    by_cases e : x = y <;> simp [e]
  | [], _ :: _, h => by simp at h
  | _ :: _, [], h => by simp at h

/-- The state `read_site` leaves behind and the tallies it classifies, from arbitrary buffers of the right length. -/
theorem readSite_tally (cfg : SiteCfg) (st : SiteSt)
    (h1 : st.counts.length = numPops cfg.map) (h2 : st.totals.length = numPops cfg.map) (gts : List GtRes) :
    (hasPloidyError (selected cfg.map cfg.cols gts) = true →
      tally cfg.map cfg.cols gts ⟨st.counts.map (fun _ => 0), st.totals.map (fun _ => 0), []⟩ = none) ∧
    (hasPloidyError (selected cfg.map cfg.cols gts) = false →
      ∃ st1, tally cfg.map cfg.cols gts ⟨st.counts.map (fun _ => 0), st.totals.map (fun _ => 0), []⟩ = some st1 ∧
        st1.counts = altCounts (numPops cfg.map) (selected cfg.map cfg.cols gts) ∧
        st1.totals = calledTotals (numPops cfg.map) (selected cfg.map cfg.cols gts) ∧
        st1.skipped.isEmpty = complete (selected cfg.map cfg.cols gts)) := by
  obtain ⟨hn, hs⟩ := tally_spec cfg.map cfg.cols gts ⟨st.counts.map (fun _ => 0), st.totals.map (fun _ => 0), []⟩
  refine ⟨hn.mpr, ?_⟩
  intro hp
  cases ht : tally cfg.map cfg.cols gts ⟨st.counts.map (fun _ => 0), st.totals.map (fun _ => 0), []⟩ with
  | none => rw [hn.mp ht] at hp; cases hp
  | some st1 =>
    obtain ⟨a, b, c, d, e⟩ := hs st1 ht
    simp only [List.length_map] at a b c d
    refine ⟨st1, rfl, ?_, ?_, ?_⟩
    · apply list_ext_getD 0
      · simp [altCounts_eq, a, h1]
      · intro j hj
        rw [a] at hj
        rw [c j hj, altCounts_eq]
        have hj' : j < numPops cfg.map := by omega
        simp [List.getD_eq_getElem?_getD, hj, hj']
    · apply list_ext_getD 0
      · simp [calledTotals_eq, b, h2]
      · intro j hj
        rw [b] at hj
        rw [d j hj, calledTotals_eq]
        have hj' : j < numPops cfg.map := by omega
        simp [List.getD_eq_getElem?_getD, hj, hj']
    · simpa using e

/-- The buffers keep their length. -/
theorem readSite_lengths (cfg : SiteCfg) (st : SiteSt) (gts : List GtRes) :
    (readSite cfg st gts).2.counts.length = st.counts.length ∧
    (readSite cfg st gts).2.totals.length = st.totals.length := by
  cases ht : tally cfg.map cfg.cols gts ⟨st.counts.map (fun _ => 0), st.totals.map (fun _ => 0), []⟩ with
  | none => simp only [readSite, ht, List.length_map, and_self]
  | some st1 =>
    obtain ⟨a, b, _⟩ := (tally_spec cfg.map cfg.cols gts _).2 st1 ht
    simp only [readSite, ht]
    simpa using ⟨a, b⟩

/-- `read_site` returns the pure function `siteSpec` of the current record, whatever the buffers held.
    Only the last clause of `CfgOk` is needed. -/
theorem readSite_eq_spec (cfg : SiteCfg)
    (hpt : ∀ pt, cfg.projectTo = some pt → pt.length = numPops cfg.map) (st : SiteSt)
    (h1 : st.counts.length = numPops cfg.map) (h2 : st.totals.length = numPops cfg.map) (gts : List GtRes) :
    (readSite cfg st gts).1 = siteSpec cfg gts := by
  obtain ⟨hA, hB⟩ := readSite_tally cfg st h1 h2 gts
  cases hp : hasPloidyError (selected cfg.map cfg.cols gts) with
  | true => simp only [readSite, siteSpec, hA hp, hp, if_true]
  | false =>
    obtain ⟨st1, ht, hc, htot, hsk⟩ := hB hp
    simp only [readSite, siteSpec, ht, hc, htot, hsk, hp]
    cases hq : cfg.projectTo with
    | none => simp
    | some pt =>
      have hl : (calledTotals (numPops cfg.map) (selected cfg.map cfg.cols gts)).length = pt.length := by
        rw [hpt pt hq]; simp [calledTotals_eq]
      simp only [zipWith_eq_all _ _ hl]
      simp [ge_iff_le]

theorem readSite_eq_spec_of_cfgOk (cfg : SiteCfg) (hc : CfgOk cfg) (st : SiteSt)
    (h1 : st.counts.length = numPops cfg.map) (h2 : st.totals.length = numPops cfg.map) (gts : List GtRes) :
    (readSite cfg st gts).1 = siteSpec cfg gts :=
  readSite_eq_spec cfg hc.2.2.2.2 st h1 h2 gts

end Sfs
