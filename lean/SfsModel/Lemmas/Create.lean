/-
Helper lemmas for the create run: the column loop `tally` against the order-free specification, `readSite` = `siteSpec`,
the runner loop as a sum of contributions.
-/
import SfsModel.Model.Create
import SfsModel.Spec.Create
import Mathlib.Algebra.Field.Basic
import Mathlib.Algebra.CharZero.Defs
namespace Sfs
end Sfs
