/-
Helper lemmas (MargSites): the marginal of the spectrum of a list of sites is the spectrum of the sites with the
removed coordinates dropped.
-/
import SfsModel.Lemmas.Marginalize
import SfsModel.Lemmas.Hyper
import SfsModel.Lemmas.Index
import SfsModel.Lemmas.SumBox
import SfsModel.Lemmas.StatGeno
import SfsModel.Lemmas.StatDecomp
namespace Sfs

section
variable {α : Type} [Field α]

/-- number of list elements satisfying `p`, as a sum of indicators -/
theorem ms_filter_length {β} (p : β → Bool) (l : List β) :
    (((l.filter p).length : Nat) : α) = (l.map (fun b => if p b then (1 : α) else 0)).sum := by
  rw [← sg_sum_filter p (fun _ => (1 : α)) l]
  simp

/-- Σ_f [drop (unflat f) = k'] · x_f = number of sites whose dropped index is `k'`. -/
theorem ms_cell (A : List Nat) (shape : List Nat) (ks : List (List Nat)) (x : List α) (h : SgSpec shape ks x)
    (k' : List Nat) :
    (∑ f ∈ Finset.range (size shape), if dropIdx A (unflat shape f) = k' then x.getD f 0 else 0)
      = (((ks.filter (fun k => decide (dropIdx A k = k'))).length : Nat) : α) := by
  rw [ms_filter_length, ← list_range_sum,
    ← sg_linear shape ks x h (fun k => if decide (dropIdx A k = k') then (1 : α) else 0)]
  congr 1
  apply List.map_congr_left
  intro f _
  by_cases he : dropIdx A (unflat shape f) = k'
  · simp [he]
  · simp [he]

/-- cell `k'` of the marginal counts the sites whose dropped index is `k'`. -/
theorem ms_counts (A : List Nat) (a b : Arr α) (ks : List (List Nat)) (h : SgSpec a.shape ks a.data)
    (hb : IsMarg A a b) (k' : List Nat) (hk : InB (dropIdx A a.shape) k') :
    b.data.getD (flat (dropIdx A a.shape) k') 0
      = (((ks.filter (fun k => decide (dropIdx A k = k'))).length : Nat) : α) := by
  have ht := flat_lt _ _ hk
  rw [hb.2, List.getD_eq_getElem?_getD, List.getElem?_map, List.getElem?_range ht]
  simp only [Option.map_some, Option.getD_some]
  rw [unflat_flat _ _ hk]
  exact ms_cell A a.shape ks a.data h k'

end

theorem ms_count_map {β γ} [BEq γ] [LawfulBEq γ] [DecidableEq γ] (g : β → γ) (k' : γ) (l : List β) :
    (l.map g).count k' = (l.filter (fun k => decide (g k = k'))).length := by
  induction l with
  | nil => simp
  | cons b l ih =>
    rw [List.map_cons, List.count_cons, ih, List.filter_cons]
    by_cases e : g b = k'
    · simp [e]
    · simp [e]

/-- the marginal of the spectrum of `ks` is the spectrum of the dropped sites -/
theorem ms_spec {α : Type} [Field α] (A : List Nat) (a b : Arr α) (ks : List (List Nat))
    (h : SgSpec a.shape ks a.data) (hb : IsMarg A a b) :
    SgSpec (dropIdx A a.shape) (ks.map (dropIdx A)) b.data := by
  refine ⟨?_, ?_, ?_⟩
  · rw [hb.data_length, hb.1]
  · intro k hk
    obtain ⟨k0, hk0, rfl⟩ := List.mem_map.mp hk
    exact sd_dropIdx_inB A _ _ (h.2.1 k0 hk0)
  · intro k' hk
    rw [ms_counts A a b ks h hb k' hk, ms_count_map]

end Sfs
