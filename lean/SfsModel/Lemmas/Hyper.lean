/-
Helper lemmas for hypergeometric projection (chooseFast = Nat.choose, Vandermonde, odometer of the projection iterator).
-/
import SfsModel.Model.Spectrum
import SfsModel.Lemmas.Index
import SfsModel.Lemmas.Odometer
import SfsModel.Lemmas.SumBox
import Mathlib.Algebra.Field.Basic
import Mathlib.Algebra.CharZero.Defs
import Mathlib.Algebra.Order.Field.Basic
import Mathlib.Algebra.BigOperators.Group.Finset.Basic
import Mathlib.Algebra.BigOperators.NatAntidiagonal
import Mathlib.Algebra.BigOperators.Ring.Finset
import Mathlib.Data.Nat.Choose.Basic
import Mathlib.Data.Nat.Choose.Vandermonde
import Mathlib.Data.Nat.Cast.Field
import Mathlib.Tactic.Ring
import Mathlib.Tactic.FieldSimp
import Mathlib.Tactic.Positivity
namespace Sfs
open Finset

/-! ### binomials and the pmf -/

theorem chooseFast_eq (n k : Nat) : chooseFast n k = Nat.choose n k := by
  unfold chooseFast
  induction k with
  | zero => simp
  | succ k ih =>
    rw [List.range_succ, List.foldl_append, ih]
    simp only [List.foldl_cons, List.foldl_nil]
    have h := Nat.choose_succ_right_eq n k
    rw [← h, Nat.mul_div_cancel _ (Nat.succ_pos k)]

section field
variable {α : Type} [Field α]

theorem hyper_eq (N K n k : Nat) :
    (hyper N K n k : α) =
      if k ≤ n then ((Nat.choose K k * Nat.choose (N - K) (n - k) : Nat) : α) / ((Nat.choose N n : Nat) : α)
      else 0 := by
  unfold hyper
  simp only [chooseFast_eq]
  by_cases h1 : k > n
  · rw [if_pos (Or.inl h1), if_neg (by omega)]
  · by_cases h2 : k > K
    · rw [if_pos (Or.inr (Or.inl h2)), if_pos (by omega), Nat.choose_eq_zero_of_lt h2]
      simp
    · by_cases h3 : n - k > N - K
      · rw [if_pos (Or.inr (Or.inr h3)), if_pos (by omega), Nat.choose_eq_zero_of_lt h3]
        simp
      · rw [if_neg (by omega), if_pos (by omega)]
        push_cast
        rfl

theorem projectValue_cons (n k m t : Nat) (ns ks ms ts : List Nat) :
    (projectValue (n :: ns) (k :: ks) (m :: ms) (t :: ts) : α) = hyper n k m t * projectValue ns ks ms ts := by
  rfl

theorem hyper_sum_one [CharZero α] (N K n : Nat) (hK : K ≤ N) (hn : n ≤ N) :
    ∑ k ∈ Finset.range (n + 1), (hyper N K n k : α) = 1 := by
  have hne : ((N.choose n : Nat) : α) ≠ 0 := by
    exact_mod_cast (Nat.choose_pos hn).ne'
  have hv : ∑ k ∈ Finset.range (n + 1), ((K.choose k * (N - K).choose (n - k) : Nat) : α)
      = ((N.choose n : Nat) : α) := by
    have := Nat.add_choose_eq K (N - K) n
    rw [Nat.add_sub_cancel' hK] at this
    rw [this, Finset.Nat.sum_antidiagonal_eq_sum_range_succ_mk]
    push_cast
    rfl
  have : ∀ k ∈ Finset.range (n + 1), (hyper N K n k : α)
      = ((K.choose k * (N - K).choose (n - k) : Nat) : α) * ((N.choose n : Nat) : α)⁻¹ := by
    intro k hk
    have hk' : k ≤ n := by have := Finset.mem_range.mp hk; omega
    rw [hyper_eq, if_pos hk', div_eq_mul_inv]
  rw [Finset.sum_congr rfl this, ← Finset.sum_mul, hv, mul_inv_cancel₀ hne]

theorem hyper_full (N K k : Nat) (hK : K ≤ N) :
    (hyper N K N k : α) = if k = K then 1 else 0 := by
  rw [hyper_eq]
  by_cases hk : k ≤ N
  · rw [if_pos hk]
    by_cases e : k = K
    · subst e
      rw [if_pos rfl]
      simp
    · rw [if_neg e]
      rcases Nat.lt_or_gt_of_ne e with h | h
      · rw [Nat.choose_eq_zero_of_lt (show N - K < N - k by omega)]; simp
      · rw [Nat.choose_eq_zero_of_lt h]; simp
  · rw [if_neg hk, if_neg (by omega)]

end field

/-! ### validation of the projection -/

theorem countOfShape_some_iff : ∀ (s c : List Nat),
    countOfShape s = some c ↔ (∀ v ∈ s, 0 < v) ∧ c = s.map (· - 1)
  | [], c => by simp [countOfShape, eq_comm]
  | v :: s, c => by
    simp only [countOfShape]
    by_cases hv : v = 0
    · subst hv; simp
    · rw [if_neg hv]
      have hv' : 0 < v := Nat.pos_of_ne_zero hv
      cases hc : countOfShape s with
      | none =>
        have := (countOfShape_some_iff s (s.map (· - 1))).not.mp (by simp [hc])
        simp only [Option.map_none, List.mem_cons, forall_eq_or_imp, List.map_cons]
        constructor
        · intro h; cases h
        · intro h; exact absurd ⟨h.1.2, rfl⟩ this
      | some c' =>
        have := (countOfShape_some_iff s c').mp hc
        simp only [Option.map_some, Option.some.injEq, List.mem_cons, forall_eq_or_imp, List.map_cons]
        constructor
        · intro h; subst h; exact ⟨⟨hv', this.1⟩, by rw [this.2]⟩
        · intro h; rw [h.2, this.2]

theorem countOfShape_none_iff (s : List Nat) : countOfShape s = none ↔ 0 ∈ s := by
  constructor
  · intro h
    by_contra h0
    have := (countOfShape_some_iff s (s.map (· - 1))).mpr
      ⟨fun v hv => Nat.pos_of_ne_zero (fun e => h0 (e ▸ hv)), rfl⟩
    rw [h] at this; cases this
  · intro h
    cases hc : countOfShape s with
    | none => rfl
    | some c =>
      have := ((countOfShape_some_iff s c).mp hc).1 0 h
      omega

theorem getD_map_pred : ∀ (s : List Nat) (j : Nat), (s.map (· - 1)).getD j 0 = s.getD j 0 - 1
  | [], j => by simp
  | v :: s, 0 => by simp
  | v :: s, j + 1 => by simpa using getD_map_pred s j

theorem getD_pos_of_mem : ∀ (s : List Nat) (j : Nat), (∀ v ∈ s, 0 < v) → j < s.length → 0 < s.getD j 0
  | [], j, _, h => by simp at h
  | v :: s, 0, hp, _ => by simpa using hp v (by simp)
  | v :: s, j + 1, hp, h => by
    simpa using getD_pos_of_mem s j (fun w hw => hp w (by simp [hw])) (by simpa using h)

theorem firstSmaller_none_iff : ∀ (f t : List Nat) (i : Nat), f.length = t.length →
    (firstSmaller f t i = none ↔ ∀ j, j < t.length → t.getD j 0 ≤ f.getD j 0)
  | [], [], i, _ => by simp [firstSmaller]
  | a :: f, b :: t, i, h => by
    have ih := firstSmaller_none_iff f t (i + 1) (by simpa using h)
    simp only [firstSmaller]
    by_cases hab : a < b
    · rw [if_pos hab]
      constructor
      · intro h; cases h
      · intro h; have := h 0 (by simp); simp at this; omega
    · rw [if_neg hab, ih]
      constructor
      · intro h j hj
        cases j with
        | zero => simp; omega
        | succ j => simpa using h j (by simpa using hj)
      · intro h j hj
        simpa using h (j + 1) (by simpa using hj)
  | [], _ :: _, _, h => by simp at h
  | _ :: _, [], _, h => by simp at h

theorem firstSmaller_some : ∀ (f t : List Nat) (i j : Nat), f.length = t.length → j < t.length →
    f.getD j 0 < t.getD j 0 → (∀ k, k < j → t.getD k 0 ≤ f.getD k 0) →
    firstSmaller f t i = some (i + j, f.getD j 0, t.getD j 0)
  | [], [], _, _, _, hj, _, _ => by simp at hj
  | a :: f, b :: t, i, 0, _, _, hlt, _ => by
    have : a < b := by simpa using hlt
    simp [firstSmaller, this]
  | a :: f, b :: t, i, j + 1, h, hj, hlt, hfirst => by
    have h0 := hfirst 0 (by omega)
    have hab : ¬ a < b := by simp at h0; omega
    have ih := firstSmaller_some f t (i + 1) j (by simpa using h) (by simpa using hj)
      (by simpa using hlt) (fun k hk => by simpa using hfirst (k + 1) (by omega))
    simp only [firstSmaller, if_neg hab, ih, List.getD_cons_succ]
    congr 2; omega
  | [], _ :: _, _, _, h, _, _, _ => by simp at h
  | _ :: _, [], _, _, h, _, _, _ => by simp at h

/-- The four conditions under which validation succeeds. -/
def ProjOk (fs ts : List Nat) : Prop :=
  fs.length = ts.length ∧ (∀ v ∈ fs, 0 < v) ∧ (∀ v ∈ ts, 0 < v) ∧
    ∀ j, j < ts.length → ts.getD j 0 ≤ fs.getD j 0

theorem projectionNew_ok_iff (fs ts : List Nat) (p : List Nat × List Nat) :
    projectionNew fs ts = .ok p ↔ ProjOk fs ts ∧ p = (fs.map (· - 1), ts.map (· - 1)) := by
  unfold projectionNew ProjOk
  cases hf : countOfShape fs with
  | none =>
    have := (countOfShape_none_iff fs).mp hf
    simp only [reduceCtorEq, false_iff]
    intro h; have := h.1.2.1 0 this; omega
  | some f =>
    cases ht : countOfShape ts with
    | none =>
      have := (countOfShape_none_iff ts).mp ht
      simp only [reduceCtorEq, false_iff]
      intro h; have := h.1.2.2.1 0 this; omega
    | some t =>
      obtain ⟨hfp, rfl⟩ := (countOfShape_some_iff fs f).mp hf
      obtain ⟨htp, rfl⟩ := (countOfShape_some_iff ts t).mp ht
      simp only [List.length_map]
      by_cases hl : fs.length = ts.length
      · rw [if_pos hl]
        have hle : (∀ j, j < ts.length → ts.getD j 0 - 1 ≤ fs.getD j 0 - 1) ↔
            (∀ j, j < ts.length → ts.getD j 0 ≤ fs.getD j 0) := by
          constructor
          · intro h j hj
            have := h j hj
            have h1 : 0 < ts.getD j 0 := getD_pos_of_mem ts j htp hj
            have h2 : 0 < fs.getD j 0 := getD_pos_of_mem fs j hfp (by omega)
            omega
          · intro h j hj; have := h j hj; omega
        cases hs : firstSmaller (fs.map (· - 1)) (ts.map (· - 1)) 0 with
        | none =>
          have := (firstSmaller_none_iff _ _ 0 (by simpa using hl)).mp hs
          simp only [List.length_map, getD_map_pred] at this
          simp only [Except.ok.injEq]
          constructor
          · intro h; exact ⟨⟨hl, hfp, htp, hle.mp this⟩, h.symm⟩
          · intro h; exact h.2.symm
        | some q =>
          obtain ⟨d, x, y⟩ := q
          simp only [reduceCtorEq, false_iff]
          intro h
          have := (firstSmaller_none_iff (fs.map (· - 1)) (ts.map (· - 1)) 0 (by simpa using hl)).mpr
            (by simp only [List.length_map, getD_map_pred]; exact hle.mpr h.1.2.2.2)
          rw [hs] at this; cases this
      · rw [if_neg hl]
        split <;> simp only [reduceCtorEq, false_iff] <;> intro h <;> exact hl h.1.1

theorem projectionNew_zero (fs ts : List Nat) (h : 0 ∈ fs ∨ 0 ∈ ts) :
    projectionNew fs ts = .error .zero := by
  unfold projectionNew
  rcases h with h | h
  · rw [(countOfShape_none_iff fs).mpr h]
  · rw [(countOfShape_none_iff ts).mpr h]
    cases countOfShape fs <;> rfl

theorem projectionNew_dimension (fs ts : List Nat) (h0 : 0 ∉ fs) (h1 : 0 ∉ ts)
    (hd : fs.length ≠ ts.length) (hne : fs ≠ []) :
    projectionNew fs ts = .error (.unequalDimensions fs.length ts.length) := by
  unfold projectionNew
  have hf := (countOfShape_some_iff fs _).mpr
    ⟨fun v hv => Nat.pos_of_ne_zero (fun e => h0 (e ▸ hv)), rfl⟩
  have ht := (countOfShape_some_iff ts _).mpr
    ⟨fun v hv => Nat.pos_of_ne_zero (fun e => h1 (e ▸ hv)), rfl⟩
  rw [hf, ht]
  simp only [List.length_map]
  rw [if_neg hd, if_neg (by simpa using hne)]

theorem projectionNew_larger (fs ts : List Nat) (h0 : 0 ∉ fs) (h1 : 0 ∉ ts)
    (hd : fs.length = ts.length) (j : Nat) (hj : j < ts.length)
    (hlt : fs.getD j 0 < ts.getD j 0) (hfirst : ∀ i, i < j → ts.getD i 0 ≤ fs.getD i 0) :
    projectionNew fs ts = .error (.invalidProjection j (fs.getD j 0 - 1) (ts.getD j 0 - 1)) := by
  unfold projectionNew
  have hf := (countOfShape_some_iff fs _).mpr
    ⟨fun v hv => Nat.pos_of_ne_zero (fun e => h0 (e ▸ hv)), rfl⟩
  have ht := (countOfShape_some_iff ts _).mpr
    ⟨fun v hv => Nat.pos_of_ne_zero (fun e => h1 (e ▸ hv)), rfl⟩
  rw [hf, ht]
  simp only [List.length_map]
  rw [if_pos hd]
  have hpos : 0 < fs.getD j 0 :=
    getD_pos_of_mem fs j (fun v hv => Nat.pos_of_ne_zero (fun e => h0 (e ▸ hv))) (by omega)
  have := firstSmaller_some (fs.map (· - 1)) (ts.map (· - 1)) 0 j (by simpa using hd) (by simpa using hj)
    (by simp only [getD_map_pred]; omega)
    (fun k hk => by simp only [getD_map_pred]; have := hfirst k hk; omega)
  rw [this]
  simp only [getD_map_pred, Nat.zero_add]

section proj
variable {α : Type} [Add α] [Mul α] [Div α] [NatCast α] [OfNat α 0] [OfNat α 1]

theorem project_of_error (a : Arr α) (toShape : List Nat) (e : ProjErr)
    (h : projectionNew a.shape toShape = .error e) : project a toShape = .error e := by
  unfold project; rw [h]

theorem project_of_ok (a : Arr α) (toShape pf pt : List Nat)
    (h : projectionNew a.shape toShape = .ok (pf, pt)) :
    project a toShape = .ok ⟨(List.range a.data.length).foldl
      (fun acc f => addProjected acc (projectIter pf (indexFromFlat a.shape f) pt) (a.data.getD f 0))
      (List.replicate (size toShape) 0), toShape⟩ := by
  unfold project; rw [h]

theorem project_isOk_iff (a : Arr α) (toShape : List Nat) :
    (∃ b, project a toShape = .ok b) ↔ ProjOk a.shape toShape := by
  cases h : projectionNew a.shape toShape with
  | error e =>
    rw [project_of_error a toShape e h]
    simp only [reduceCtorEq, exists_false, false_iff]
    intro hok
    have := (projectionNew_ok_iff a.shape toShape _).mpr ⟨hok, rfl⟩
    rw [h] at this; cases this
  | ok p =>
    obtain ⟨pf, pt⟩ := p
    rw [project_of_ok a toShape pf pt h]
    have := ((projectionNew_ok_iff a.shape toShape _).mp h).1
    simp [this]

end proj
/-! ### the odometer of the projection iterator -/

theorem projStepR_spec : ∀ (mR : List Nat) (j : Nat), j < size (mR.map (· + 1)) →
    projStepR mR (unflatR (mR.map (· + 1)) j)
      = if j + 1 < size (mR.map (· + 1)) then some (unflatR (mR.map (· + 1)) (j + 1)) else none
  | [], j, hj => by simp [size] at hj; simp [projStepR, size, hj]
  | m :: ms, j, hj => by
    simp only [List.map_cons, size] at hj ⊢
    have ihf := projStepR_spec ms
    generalize hsh : ms.map (· + 1) = sh at *
    generalize hvv : m + 1 = v at *
    have hv : 0 < v := by omega
    have hq : j / v < size sh := Nat.div_lt_of_lt_mul hj
    have ih := ihf (j / v) hq
    have hr := Nat.mod_lt j hv
    have hdm := Nat.div_add_mod j v
    simp only [unflatR, projStepR]
    by_cases hc : j % v + 1 ≤ m
    · have hc' : j % v + 1 < v := by omega
      have e1 : (j + 1) % v = j % v + 1 := by
        have : j + 1 = v * (j / v) + (j % v + 1) := by omega
        rw [this, Nat.mul_add_mod, Nat.mod_eq_of_lt hc']
      have e2 : (j + 1) / v = j / v := by
        have : j + 1 = v * (j / v) + (j % v + 1) := by omega
        rw [this, Nat.mul_add_div hv, Nat.div_eq_of_lt hc']; simp
      have e3 : j + 1 < v * size sh := by
        have : v * (j / v + 1) ≤ v * size sh := Nat.mul_le_mul_left _ hq
        rw [Nat.mul_add, Nat.mul_one] at this
        omega
      simp only [hc, if_true, e1, e2, e3]
    · have hS : j % v + 1 = v := by omega
      have e0 : j + 1 = v * (j / v + 1) := by rw [Nat.mul_add, Nat.mul_one]; omega
      have e1 : (j + 1) % v = 0 := by rw [e0]; exact Nat.mul_mod_right _ _
      have e2 : (j + 1) / v = j / v + 1 := by rw [e0, Nat.mul_div_cancel_left _ hv]
      have e3 : (j + 1 < v * size sh) ↔ (j / v + 1 < size sh) := by
        rw [e0]; exact Nat.mul_lt_mul_left hv
      simp only [hc, if_false, ih, e1, e2]
      by_cases hn : j / v + 1 < size sh
      · simp [hn, e3.mpr hn]
      · simp [hn, mt e3.mp hn]

section iter
variable {α : Type} [Mul α] [Div α] [NatCast α] [OfNat α 0] [OfNat α 1]

theorem projectIterGo_eq (pf from_ pt : List Nat) : ∀ (fuel k : Nat), k + fuel = size (pt.map (· + 1)) →
    (projectIterGo pf from_ pt fuel (unflatR (pt.reverse.map (· + 1)) k) : List α)
      = (List.range fuel).map (fun j => projectValue pf from_ pt (unflat (pt.map (· + 1)) (k + j)))
  | 0, k, _ => by simp [projectIterGo]
  | fuel + 1, k, h => by
    have hk : k < size (pt.map (· + 1)) := by omega
    have hpos : ∀ w ∈ pt.map (· + 1), 0 < w := by
      intro w hw
      obtain ⟨_, _, rfl⟩ := List.mem_map.mp hw
      omega
    have hmr : pt.reverse.map (· + 1) = (pt.map (· + 1)).reverse := by rw [List.map_reverse]
    have hrev : (unflatR (pt.reverse.map (· + 1)) k).reverse = unflat (pt.map (· + 1)) k := by
      rw [hmr, unflatR_reverse _ _ hpos hk, List.reverse_reverse]
    have hsz : size (pt.reverse.map (· + 1)) = size (pt.map (· + 1)) := by rw [hmr, size_reverse]
    have hstep := projStepR_spec pt.reverse k (by rw [hsz]; exact hk)
    rw [hsz] at hstep
    simp only [projectIterGo, hrev, hstep]
    rw [List.range_succ_eq_map]
    simp only [List.map_cons, List.map_map, Nat.add_zero]
    congr 1
    by_cases hn : k + 1 < size (pt.map (· + 1))
    · rw [if_pos hn]
      simp only
      rw [projectIterGo_eq pf from_ pt fuel (k + 1) (by omega)]
      apply List.map_congr_left
      intro j _
      simp only [Function.comp, Nat.succ_eq_add_one]
      rw [Nat.add_assoc, Nat.add_comm 1 j]
    · rw [if_neg hn]
      have : fuel = 0 := by omega
      subst this
      simp

theorem projectIter_eq (pf from_ pt : List Nat) :
    (projectIter pf from_ pt : List α)
      = (List.range (size (pt.map (· + 1)))).map
          (fun t => projectValue pf from_ pt (unflat (pt.map (· + 1)) t)) := by
  have := projectIterGo_eq (α := α) pf from_ pt (size (pt.map (· + 1))) 0 (by omega)
  rw [unflatR_zero] at this
  simp only [List.length_map, List.length_reverse, Nat.zero_add] at this
  exact this

end iter
/-! ### the accumulation loop of `project` -/

theorem addProjected_range {α} [Add α] [Mul α] (M : Nat) (g h : Nat → α) (w : α) :
    addProjected ((List.range M).map g) ((List.range M).map h) w
      = (List.range M).map (fun t => g t + h t * w) := by
  unfold addProjected
  have hd : ((List.range M).map g).drop ((List.range M).map h).length = [] := by
    apply List.drop_of_length_le; simp
  rw [hd, List.append_nil]
  apply List.ext_getElem
  · simp
  · intro t h1 h2
    simp

theorem map_pred_succ : ∀ (s : List Nat), (∀ v ∈ s, 0 < v) → (s.map (· - 1)).map (· + 1) = s
  | [], _ => rfl
  | v :: s, h => by
    have hv := h v (by simp)
    have := map_pred_succ s (fun w hw => h w (by simp [hw]))
    simp only [List.map_cons, this]
    congr 1; omega

theorem unflatLoop_length : ∀ (n f : Nat) (s : List Nat), (unflatLoop n f s).length = s.length
  | _, _, [] => rfl
  | n, f, v :: s => by simp [unflatLoop, unflatLoop_length _ _ s]

section field
variable {α : Type} [Field α]

theorem project_fold (s : List Nat) (x : List α) (pf pt : List Nat) : ∀ n, n ≤ size s →
    (List.range n).foldl
        (fun acc f => addProjected acc (projectIter pf (indexFromFlat s f) pt) (x.getD f 0))
        (List.replicate (size (pt.map (· + 1))) (0 : α))
      = (List.range (size (pt.map (· + 1)))).map (fun t =>
          ∑ f ∈ Finset.range n, x.getD f 0 * projectValue pf (unflat s f) pt (unflat (pt.map (· + 1)) t))
  | 0, _ => by
    apply List.ext_getElem
    · simp
    · intro t h1 h2; simp
  | n + 1, hn => by
    rw [List.range_succ, List.foldl_append, project_fold s x pf pt n (by omega)]
    simp only [List.foldl_cons, List.foldl_nil]
    rw [projectIter_eq, addProjected_range]
    apply List.map_congr_left
    intro t _
    rw [Finset.sum_range_succ, indexFromFlat, unflatLoop_eq s n (by omega), mul_comm (x.getD n 0)]

/-- The code of `project` computes the hypergeometric kernel applied to the data. -/
theorem project_spec (a b : Arr α) (toShape : List Nat) (hlen : a.data.length = size a.shape)
    (h : project a toShape = .ok b) :
    ProjOk a.shape toShape ∧ b.shape = toShape ∧
    b.data = (List.range (size toShape)).map (fun t =>
      ∑ f ∈ Finset.range (size a.shape), a.data.getD f 0 *
        projectValue (a.shape.map (· - 1)) (unflat a.shape f) (toShape.map (· - 1)) (unflat toShape t)) := by
  have hok : ProjOk a.shape toShape := (project_isOk_iff a toShape).mp ⟨b, h⟩
  have hp := (projectionNew_ok_iff a.shape toShape _).mpr ⟨hok, rfl⟩
  rw [project_of_ok a toShape _ _ hp] at h
  have hb := (Except.ok.inj h).symm
  subst hb
  refine ⟨hok, rfl, ?_⟩
  have hts : (toShape.map (· - 1)).map (· + 1) = toShape := map_pred_succ toShape hok.2.2.1
  have := project_fold a.shape a.data (a.shape.map (· - 1)) (toShape.map (· - 1)) (size a.shape) (Nat.le_refl _)
  rw [hts] at this
  simp only [hlen]
  exact this

/-! ### mass, identity, non-negativity -/

theorem list_sum_eq_sum_range_getD : ∀ (l : List α), l.sum = ∑ i ∈ Finset.range l.length, l.getD i 0
  | [] => by simp
  | x :: l => by
    rw [List.length_cons, Finset.sum_range_succ', List.sum_cons, list_sum_eq_sum_range_getD l]
    simp [add_comm]

theorem sumBox_mul_left (c : α) : ∀ (s : List Nat) (F : List Nat → α),
    sumBox s (fun idx => c * F idx) = c * sumBox s F
  | [], F => rfl
  | v :: s, F => by
    simp only [sumBox]
    rw [Finset.mul_sum]
    apply Finset.sum_congr rfl
    intro i _
    exact sumBox_mul_left c s (fun idx => F (i :: idx))

theorem sumBox_projectValue [CharZero α] : ∀ (fs ts idx : List Nat), InB fs idx → fs.length = ts.length →
    (∀ v ∈ ts, 0 < v) → (∀ j, j < ts.length → ts.getD j 0 ≤ fs.getD j 0) →
    sumBox ts (fun tidx => (projectValue (fs.map (· - 1)) idx (ts.map (· - 1)) tidx : α)) = 1
  | [], [], [], _, _, _, _ => by simp [sumBox, projectValue]
  | v :: fs, w :: ts, i :: idx, hin, hl, hpos, hle => by
    have hw : 0 < w := hpos w (by simp)
    have hwv : w ≤ v := by simpa using hle 0 (by simp)
    have hi : i < v := hin.1
    have ih := sumBox_projectValue fs ts idx hin.2 (by simpa using hl)
      (fun u hu => hpos u (by simp [hu])) (fun j hj => by simpa using hle (j + 1) (by simpa using hj))
    simp only [sumBox, List.map_cons]
    have : ∀ t ∈ Finset.range w, sumBox ts (fun tidx =>
        (projectValue ((v - 1) :: fs.map (· - 1)) (i :: idx) ((w - 1) :: ts.map (· - 1)) (t :: tidx) : α))
        = hyper (v - 1) i (w - 1) t := by
      intro t _
      have : (fun tidx => (projectValue ((v - 1) :: fs.map (· - 1)) (i :: idx) ((w - 1) :: ts.map (· - 1)) (t :: tidx) : α))
          = fun tidx => hyper (v - 1) i (w - 1) t * projectValue (fs.map (· - 1)) idx (ts.map (· - 1)) tidx := rfl
      rw [this, sumBox_mul_left, ih, mul_one]
    rw [Finset.sum_congr rfl this]
    have hw' : w = (w - 1) + 1 := by omega
    rw [hw']
    simp only [Nat.add_sub_cancel]
    exact hyper_sum_one (v - 1) i (w - 1) (by omega) (by omega)
  | [], _ :: _, _, _, hl, _, _ => by simp at hl
  | _ :: _, [], _, _, hl, _, _ => by simp at hl
  | [], [], _ :: _, hin, _, _, _ => by simp [InB] at hin
  | _ :: _, _ :: _, [], hin, _, _, _ => by simp [InB] at hin

theorem projectValue_self : ∀ (s idx tidx : List Nat), InB s idx → InB s tidx →
    (projectValue (s.map (· - 1)) idx (s.map (· - 1)) tidx : α) = if tidx = idx then 1 else 0
  | [], [], [], _, _ => by simp [projectValue]
  | v :: s, i :: idx, t :: tidx, h1, h2 => by
    have ih := projectValue_self s idx tidx h1.2 h2.2
    have hi : i < v := h1.1
    simp only [List.map_cons, projectValue_cons, ih, hyper_full (v - 1) i t (by omega)]
    by_cases e1 : t = i
    · by_cases e2 : tidx = idx
      · simp [e1, e2]
      · simp [e1, e2]
    · simp [e1]
  | [], [], _ :: _, _, h => by simp [InB] at h
  | [], _ :: _, _, h, _ => by simp [InB] at h
  | _ :: _, [], _, h, _ => by simp [InB] at h
  | _ :: _, _ :: _, [], _, h => by simp [InB] at h

theorem unflat_inj (s : List Nat) (i j : Nat) (hi : i < size s) (hj : j < size s)
    (h : unflat s i = unflat s j) : i = j := by
  rw [← flat_unflat s i hi, ← flat_unflat s j hj, h]

theorem project_sum (a b : Arr α) [CharZero α] (toShape : List Nat) (hlen : a.data.length = size a.shape)
    (h : project a toShape = .ok b) : b.data.sum = a.data.sum := by
  obtain ⟨hok, _, hd⟩ := project_spec a b toShape hlen h
  rw [hd, list_range_sum, Finset.sum_comm, list_sum_eq_sum_range_getD, hlen]
  apply Finset.sum_congr rfl
  intro f hf
  rw [← Finset.mul_sum]
  have hin := unflat_inB a.shape f (Finset.mem_range.mp hf)
  rw [sum_unflat toShape (fun tidx =>
    (projectValue (a.shape.map (· - 1)) (unflat a.shape f) (toShape.map (· - 1)) tidx : α))]
  rw [sumBox_projectValue a.shape toShape _ hin hok.1 hok.2.2.1 hok.2.2.2, mul_one]

theorem project_self (a : Arr α) (hlen : a.data.length = size a.shape) (hpos : ∀ v ∈ a.shape, 0 < v) :
    project a a.shape = .ok a := by
  have hok : ProjOk a.shape a.shape := ⟨rfl, hpos, hpos, fun _ _ => Nat.le_refl _⟩
  obtain ⟨b, hb⟩ := (project_isOk_iff a a.shape).mpr hok
  obtain ⟨_, hs, hd⟩ := project_spec a b a.shape hlen hb
  rw [hb]
  congr 1
  obtain ⟨bd, bs⟩ := b
  obtain ⟨ad, as⟩ := a
  simp only at hs hd hlen ⊢
  subst hs
  congr 1
  rw [hd]
  apply List.ext_getElem
  · simp [hlen]
  · intro t h1 h2
    have ht : t < size bs := by simpa using h1
    simp only [List.getElem_map, List.getElem_range]
    have : ∀ f ∈ Finset.range (size bs), ad.getD f 0 *
        (projectValue (bs.map (· - 1)) (unflat bs f) (bs.map (· - 1)) (unflat bs t) : α)
        = if t = f then ad.getD f 0 else 0 := by
      intro f hf
      have hf' := Finset.mem_range.mp hf
      rw [projectValue_self bs _ _ (unflat_inB bs f hf') (unflat_inB bs t ht)]
      by_cases e : t = f
      · subst e; simp
      · have : unflat bs t ≠ unflat bs f := fun h => e (unflat_inj bs t f ht hf' h)
        simp [e, this]
    rw [Finset.sum_congr rfl this, Finset.sum_ite_eq, if_pos (Finset.mem_range.mpr ht)]
    rw [List.getD_eq_getElem?_getD, List.getElem?_eq_getElem h2]
    rfl

end field

section ordered
variable {β : Type} [Field β] [LinearOrder β] [IsStrictOrderedRing β]

theorem hyper_nonneg (N K n k : Nat) : (0 : β) ≤ hyper N K n k := by
  unfold hyper
  split
  · exact le_refl _
  · exact div_nonneg (mul_nonneg (Nat.cast_nonneg _) (Nat.cast_nonneg _)) (Nat.cast_nonneg _)

theorem projectValue_nonneg (ns ks ms ts : List Nat) : (0 : β) ≤ projectValue ns ks ms ts := by
  fun_induction projectValue (α := β) ns ks ms ts with
  | case1 n ns k ks m ms t ts ih => exact mul_nonneg (hyper_nonneg n k m t) ih
  | case2 => exact zero_le_one

theorem project_nonneg (a b : Arr β) (toShape : List Nat) (hlen : a.data.length = size a.shape)
    (h : project a toShape = .ok b) (hnn : ∀ x ∈ a.data, 0 ≤ x) : ∀ y ∈ b.data, 0 ≤ y := by
  obtain ⟨_, _, hd⟩ := project_spec a b toShape hlen h
  intro y hy
  rw [hd] at hy
  obtain ⟨t, _, rfl⟩ := List.mem_map.mp hy
  apply Finset.sum_nonneg
  intro f _
  apply mul_nonneg _ (projectValue_nonneg _ _ _ _)
  rw [List.getD_eq_getElem?_getD]
  cases hx : a.data[f]? with
  | none => exact le_refl _
  | some x => exact hnn x (List.mem_of_getElem? hx)

end ordered
/-! ### ext: composition of two down-samplings -/

theorem choose_mul_add (K k i : Nat) :
    K.choose (k + i) * (k + i).choose k = K.choose k * (K - k).choose i := by
  have := Nat.choose_mul (n := K) (k := k + i) (s := k) (by omega)
  rwa [Nat.add_sub_cancel_left] at this

theorem vandermonde_range (a b c : Nat) :
    ∑ i ∈ Finset.range (c + 1), a.choose i * b.choose (c - i) = (a + b).choose c := by
  rw [Nat.add_choose_eq, Finset.Nat.sum_antidiagonal_eq_sum_range_succ_mk]

theorem compose_sum_nat (N K n m k : Nat) (hm : m ≤ n) (hk : k ≤ m) :
    ∑ j ∈ Finset.range (n + 1), K.choose j * (N - K).choose (n - j) * (j.choose k * (n - j).choose (m - k))
      = K.choose k * (N - K).choose (m - k) * ((K - k) + (N - K - (m - k))).choose (n - m) := by
  have hsplit : n + 1 = k + ((n - m + 1) + (m - k)) := by omega
  rw [hsplit, Finset.sum_range_add, Finset.sum_range_add]
  have h1 : ∑ j ∈ Finset.range k, K.choose j * (N - K).choose (n - j) * (j.choose k * (n - j).choose (m - k)) = 0 := by
    apply Finset.sum_eq_zero
    intro j hj
    rw [Nat.choose_eq_zero_of_lt (Finset.mem_range.mp hj)]; simp
  have h3 : ∑ x ∈ Finset.range (m - k), K.choose (k + (n - m + 1 + x)) *
      (N - K).choose (n - (k + (n - m + 1 + x))) *
      ((k + (n - m + 1 + x)).choose k * (n - (k + (n - m + 1 + x))).choose (m - k)) = 0 := by
    apply Finset.sum_eq_zero
    intro x hx
    have := Finset.mem_range.mp hx
    rw [Nat.choose_eq_zero_of_lt (show n - (k + (n - m + 1 + x)) < m - k by omega)]; simp
  rw [h1, h3, Nat.zero_add, Nat.add_zero, ← vandermonde_range, Finset.mul_sum]
  apply Finset.sum_congr rfl
  intro i hi
  have hi' : i ≤ n - m := by have := Finset.mem_range.mp hi; omega
  have e : n - (k + i) = (m - k) + (n - m - i) := by omega
  have c1 := choose_mul_add K k i
  have c2 := choose_mul_add (N - K) (m - k) (n - m - i)
  rw [e]
  calc K.choose (k + i) * (N - K).choose (m - k + (n - m - i)) *
        ((k + i).choose k * (m - k + (n - m - i)).choose (m - k))
      = (K.choose (k + i) * (k + i).choose k) *
        ((N - K).choose (m - k + (n - m - i)) * (m - k + (n - m - i)).choose (m - k)) := by ring
    _ = _ := by rw [c1, c2]; ring

theorem compose_nat (N K n m k : Nat) (hK : K ≤ N) (hn : n ≤ N) (hm : m ≤ n) (hk : k ≤ m) :
    (∑ j ∈ Finset.range (n + 1), K.choose j * (N - K).choose (n - j) * (j.choose k * (n - j).choose (m - k)))
        * N.choose m
      = K.choose k * (N - K).choose (m - k) * (N.choose n * n.choose m) := by
  rw [compose_sum_nat N K n m k hm hk, Nat.choose_mul (n := N) (k := n) (s := m) hm]
  by_cases h : k ≤ K ∧ m - k ≤ N - K
  · have : K - k + (N - K - (m - k)) = N - m := by omega
    rw [this]; ring
  · have : K.choose k * (N - K).choose (m - k) = 0 := by
      by_cases h1 : k ≤ K
      · rw [Nat.choose_eq_zero_of_lt (show N - K < m - k by omega)]; simp
      · rw [Nat.choose_eq_zero_of_lt (show K < k by omega)]; simp
    rw [this]; simp

theorem hyper_compose {α : Type} [Field α] [CharZero α] (N K n m k : Nat) (hK : K ≤ N) (hn : n ≤ N) (hm : m ≤ n) :
    ∑ j ∈ Finset.range (n + 1), (hyper N K n j : α) * hyper n j m k = hyper N K m k := by
  by_cases hk : k ≤ m
  · have hA : ((N.choose n : Nat) : α) ≠ 0 := by exact_mod_cast (Nat.choose_pos hn).ne'
    have hB : ((n.choose m : Nat) : α) ≠ 0 := by exact_mod_cast (Nat.choose_pos hm).ne'
    have hC : ((N.choose m : Nat) : α) ≠ 0 := by exact_mod_cast (Nat.choose_pos (le_trans hm hn)).ne'
    have hterm : ∀ j ∈ Finset.range (n + 1), (hyper N K n j : α) * hyper n j m k
        = ((K.choose j * (N - K).choose (n - j) * (j.choose k * (n - j).choose (m - k)) : Nat) : α)
          * (((N.choose n : Nat) : α) * ((n.choose m : Nat) : α))⁻¹ := by
      intro j hj
      have hj' : j ≤ n := by have := Finset.mem_range.mp hj; omega
      rw [hyper_eq, hyper_eq, if_pos hj', if_pos hk]
      push_cast
      field_simp
    rw [Finset.sum_congr rfl hterm, ← Finset.sum_mul, hyper_eq, if_pos hk, ← div_eq_mul_inv,
      div_eq_div_iff (mul_ne_zero hA hB) hC]
    have := compose_nat N K n m k hK hn hm hk
    have h2 := congrArg (Nat.cast (R := α)) this
    push_cast at h2 ⊢
    exact h2
  · have : ∀ j ∈ Finset.range (n + 1), (hyper N K n j : α) * hyper n j m k = 0 := by
      intro j _
      rw [hyper_eq n j m k, if_neg hk, mul_zero]
    rw [Finset.sum_congr rfl this, hyper_eq, if_neg hk]
    simp

theorem getD_map_range {α : Type} (f : Nat → α) (n g : Nat) (h : g < n) (d : α) :
    ((List.range n).map f).getD g d = f g := by
  rw [List.getD_eq_getElem?_getD, List.getElem?_map, List.getElem?_range h]
  rfl

section field
variable {α : Type} [Field α]

theorem sumBox_compose [CharZero α] : ∀ (fs ms ts fidx tidx : List Nat), InB fs fidx → InB ts tidx →
    fs.length = ms.length → ms.length = ts.length → (∀ v ∈ ms, 0 < v) → (∀ v ∈ ts, 0 < v) →
    (∀ j, j < ms.length → ms.getD j 0 ≤ fs.getD j 0) → (∀ j, j < ts.length → ts.getD j 0 ≤ ms.getD j 0) →
    sumBox ms (fun gidx => (projectValue (fs.map (· - 1)) fidx (ms.map (· - 1)) gidx : α)
        * projectValue (ms.map (· - 1)) gidx (ts.map (· - 1)) tidx)
      = projectValue (fs.map (· - 1)) fidx (ts.map (· - 1)) tidx
  | [], [], [], [], [], _, _, _, _, _, _, _, _ => by simp [sumBox, projectValue]
  | v :: fs, w :: ms, u :: ts, i :: fidx, t :: tidx, hf, ht, hl1, hl2, hpm, hpt, hle1, hle2 => by
    have hw : 0 < w := hpm w (by simp)
    have hu : 0 < u := hpt u (by simp)
    have hwv : w ≤ v := by simpa using hle1 0 (by simp)
    have huw : u ≤ w := by simpa using hle2 0 (by simp)
    have hi : i < v := hf.1
    have ih := sumBox_compose fs ms ts fidx tidx hf.2 ht.2 (by simpa using hl1) (by simpa using hl2)
      (fun x hx => hpm x (by simp [hx])) (fun x hx => hpt x (by simp [hx]))
      (fun j hj => by simpa using hle1 (j + 1) (by simpa using hj))
      (fun j hj => by simpa using hle2 (j + 1) (by simpa using hj))
    simp only [sumBox, List.map_cons]
    have : ∀ g ∈ Finset.range w, sumBox ms (fun gidx =>
        (projectValue ((v - 1) :: fs.map (· - 1)) (i :: fidx) ((w - 1) :: ms.map (· - 1)) (g :: gidx) : α)
          * projectValue ((w - 1) :: ms.map (· - 1)) (g :: gidx) ((u - 1) :: ts.map (· - 1)) (t :: tidx))
        = (hyper (v - 1) i (w - 1) g * hyper (w - 1) g (u - 1) t)
          * projectValue (fs.map (· - 1)) fidx (ts.map (· - 1)) tidx := by
      intro g _
      rw [← ih, ← sumBox_mul_left]
      congr 1
      funext gidx
      simp only [projectValue_cons]
      ring
    rw [Finset.sum_congr rfl this, ← Finset.sum_mul, projectValue_cons]
    congr 1
    have hw' : w = (w - 1) + 1 := by omega
    rw [hw']
    simp only [Nat.add_sub_cancel]
    exact hyper_compose (v - 1) i (w - 1) (u - 1) t (by omega) (by omega) (by omega)
  | [], _ :: _, _, _, _, _, _, h, _, _, _, _, _ => by simp at h
  | _ :: _, [], _, _, _, _, _, h, _, _, _, _, _ => by simp at h
  | [], [], _ :: _, _, _, _, _, _, h, _, _, _, _ => by simp at h
  | _ :: _, _ :: _, [], _, _, _, _, _, h, _, _, _, _ => by simp at h
  | [], [], [], _ :: _, _, h, _, _, _, _, _, _, _ => by simp [InB] at h
  | _ :: _, _ :: _, _ :: _, [], _, h, _, _, _, _, _, _, _ => by simp [InB] at h
  | [], [], [], [], _ :: _, _, h, _, _, _, _, _, _ => by simp [InB] at h
  | _ :: _, _ :: _, _ :: _, _ :: _, [], _, h, _, _, _, _, _, _ => by simp [InB] at h

theorem project_twice [CharZero α] (a b c d : Arr α) (mid toShape : List Nat)
    (hlen : a.data.length = size a.shape)
    (h1 : project a mid = .ok b) (h2 : project b toShape = .ok c) (h3 : project a toShape = .ok d) :
    c = d := by
  obtain ⟨ok1, hs1, hd1⟩ := project_spec a b mid hlen h1
  have hlenb : b.data.length = size b.shape := by rw [hd1, hs1]; simp
  obtain ⟨ok2, hs2, hd2⟩ := project_spec b c toShape hlenb h2
  obtain ⟨ok3, hs3, hd3⟩ := project_spec a d toShape hlen h3
  obtain ⟨cd, cs⟩ := c
  obtain ⟨dd, ds⟩ := d
  simp only at hs2 hs3 hd2 hd3
  rw [hs2, hs3, hd2, hd3]
  congr 1
  apply List.map_congr_left
  intro t ht
  have ht' : t < size toShape := List.mem_range.mp ht
  rw [hs1] at ok2 ⊢
  have hg : ∀ g ∈ Finset.range (size mid), b.data.getD g 0 *
      (projectValue (mid.map (· - 1)) (unflat mid g) (toShape.map (· - 1)) (unflat toShape t) : α)
      = ∑ f ∈ Finset.range (size a.shape), a.data.getD f 0 *
        (projectValue (a.shape.map (· - 1)) (unflat a.shape f) (mid.map (· - 1)) (unflat mid g)
          * projectValue (mid.map (· - 1)) (unflat mid g) (toShape.map (· - 1)) (unflat toShape t)) := by
    intro g hg
    rw [hd1, getD_map_range _ _ _ (Finset.mem_range.mp hg), Finset.sum_mul]
    apply Finset.sum_congr rfl
    intro f _
    rw [mul_assoc]
  rw [Finset.sum_congr rfl hg, Finset.sum_comm]
  apply Finset.sum_congr rfl
  intro f hf
  rw [← Finset.mul_sum]
  congr 1
  rw [sum_unflat mid (fun gidx =>
    (projectValue (a.shape.map (· - 1)) (unflat a.shape f) (mid.map (· - 1)) gidx : α)
      * projectValue (mid.map (· - 1)) gidx (toShape.map (· - 1)) (unflat toShape t))]
  exact sumBox_compose a.shape mid toShape _ _ (unflat_inB _ f (Finset.mem_range.mp hf))
    (unflat_inB _ t ht') ok1.1 ok2.1 ok1.2.2.1 ok2.2.2.1 ok1.2.2.2 ok2.2.2.2

end field
end Sfs
