/-
Helper lemmas (Bytes): little-endian byte round trip, decimal digits round trip, `pU64`, `checkedSize`,
ASCII byte/char conversions. Core Lean only. Stated generally (shared with C15/C16/C18).
-/
import SfsModel.Model.Text
namespace Sfs

/-! ## little-endian bytes -/

@[simp] theorem leBytes_length (k n : Nat) : (leBytes k n).length = k := by
  induction k generalizing n with
  | zero => simp [leBytes]
  | succ k ih => simp [leBytes, ih]

theorem leBytes_lt (k n : Nat) : ∀ b ∈ leBytes k n, b < 256 := by
  induction k generalizing n with
  | zero => simp [leBytes]
  | succ k ih =>
    intro b hb
    simp only [leBytes, List.mem_cons] at hb
    rcases hb with rfl | hb
    · exact Nat.mod_lt _ (by decide)
    · exact ih _ b hb

theorem ofLeBytes_leBytes (k n : Nat) : ofLeBytes (leBytes k n) = n % 256 ^ k := by
  induction k generalizing n with
  | zero => simp [leBytes, ofLeBytes, Nat.mod_one]
  | succ k ih =>
    simp only [leBytes, ofLeBytes, ih]
    rw [Nat.pow_succ, Nat.mul_comm (256 ^ k) 256, Nat.mod_mul]

theorem ofLeBytes_leBytes_of_lt (k n : Nat) (h : n < 256 ^ k) : ofLeBytes (leBytes k n) = n := by
  rw [ofLeBytes_leBytes, Nat.mod_eq_of_lt h]

theorem ofLeBytes_leBytes8 (n : Nat) (h : n < 2 ^ 64) : ofLeBytes (leBytes 8 n) = n :=
  ofLeBytes_leBytes_of_lt 8 n (by simpa using h)

theorem ofLeBytes_leBytes2 (n : Nat) (h : n < 65536) : ofLeBytes (leBytes 2 n) = n :=
  ofLeBytes_leBytes_of_lt 2 n (by simpa using h)

theorem ofLeBytes_lt (l : List Nat) (h : ∀ b ∈ l, b < 256) : ofLeBytes l < 256 ^ l.length := by
  induction l with
  | nil => simp [ofLeBytes]
  | cons b bs ih =>
    have hb : b < 256 := h b (by simp)
    have := ih (fun x hx => h x (by simp [hx]))
    simp only [ofLeBytes, List.length_cons, Nat.pow_succ]
    omega

/-! ## ASCII bytes / chars -/

@[simp] theorem bytesToChars_asciiBytes (s : List Char) : bytesToChars (asciiBytes s) = s := by
  induction s with
  | nil => rfl
  | cons c s ih =>
    simp only [bytesToChars, asciiBytes, List.map_cons, List.map_map] at ih ⊢
    rw [ih, Char.ofNat_toNat]

@[simp] theorem asciiBytes_append (a b : List Char) : asciiBytes (a ++ b) = asciiBytes a ++ asciiBytes b := by
  simp [asciiBytes]

@[simp] theorem bytesToChars_append (a b : List Nat) : bytesToChars (a ++ b) = bytesToChars a ++ bytesToChars b := by
  simp [bytesToChars]

@[simp] theorem asciiBytes_length (a : List Char) : (asciiBytes a).length = a.length := by
  simp [asciiBytes]

@[simp] theorem allAscii_append (a b : List Nat) : allAscii (a ++ b) = (allAscii a && allAscii b) := by
  simp [allAscii]

theorem allAscii_asciiBytes (s : List Char) (h : ∀ c ∈ s, c.toNat < 128) : allAscii (asciiBytes s) = true := by
  simp only [allAscii, asciiBytes, List.all_map, List.all_eq_true, Function.comp]
  intro c hc
  simpa using h c hc

/-! ## decimal digits -/

theorem digitsVal_eq (l : List Char) : digitsVal l = Nat.ofDigitChars 10 l 0 := rfl

theorem digitsVal_showNat (n : Nat) : digitsVal (showNat n) = n :=
  Nat.ofDigitChars_toDigits (by decide) (by decide)

theorem digitsVal_toDigits (n : Nat) : digitsVal (Nat.toDigits 10 n) = n :=
  Nat.ofDigitChars_toDigits (by decide) (by decide)

theorem digitsVal_append (a b : List Char) :
    digitsVal (a ++ b) = 10 ^ b.length * digitsVal a + digitsVal b := by
  rw [digitsVal_eq, Nat.ofDigitChars_append, Nat.ofDigitChars_eq_ofDigitChars_zero]
  rfl

@[simp] theorem digitsVal_replicate_zero (n : Nat) : digitsVal (List.replicate n '0') = 0 := by
  rw [digitsVal_eq, Nat.ofDigitChars_replicate_zero]; simp

theorem showNat_ne_nil (n : Nat) : showNat n ≠ [] := Nat.toDigits_ne_nil

theorem showNat_isDigit (n : Nat) : ∀ c ∈ showNat n, c.isDigit = true :=
  fun _ hc => Nat.isDigit_of_mem_toDigits (by decide) (by decide) hc

theorem toDigits_isDigit (n : Nat) : ∀ c ∈ Nat.toDigits 10 n, c.isDigit = true :=
  fun _ hc => Nat.isDigit_of_mem_toDigits (by decide) (by decide) hc

/-- the first character of a printed number is a digit. -/
theorem showNat_head (n : Nat) : ∃ c t, showNat n = c :: t ∧ c.isDigit = true := by
  cases h : showNat n with
  | nil => exact absurd h (showNat_ne_nil n)
  | cons c t => exact ⟨c, t, rfl, showNat_isDigit n c (by simp [h])⟩

/-- the last character of a printed number is a digit. -/
theorem showNat_last (n : Nat) : ∃ t c, showNat n = t ++ [c] ∧ c.isDigit = true := by
  have hne := showNat_ne_nil n
  refine ⟨(showNat n).dropLast, (showNat n).getLast hne, (List.dropLast_concat_getLast hne).symm, ?_⟩
  exact showNat_isDigit n _ (List.getLast_mem hne)

theorem isDigit_toNat {c : Char} (h : c.isDigit = true) : 48 ≤ c.toNat ∧ c.toNat ≤ 57 := by
  simp only [Char.isDigit, Bool.and_eq_true, decide_eq_true_eq] at h
  have h1 : '0'.val ≤ c.val := h.1
  have h2 : c.val ≤ '9'.val := h.2
  rw [UInt32.le_iff_toNat_le] at h1 h2
  exact ⟨h1, h2⟩

theorem isDigit_lt128 {c : Char} (h : c.isDigit = true) : c.toNat < 128 := by
  have := isDigit_toNat h; omega

/-! ## generic takeWhile/dropWhile split -/

theorem takeWhile_append_stop {α} (p : α → Bool) : ∀ (l r : List α), (∀ x ∈ l, p x = true) →
    (∀ x, r.head? = some x → p x = false) → (l ++ r).takeWhile p = l ∧ (l ++ r).dropWhile p = r
  | [], r, _, hr => by
    cases r with
    | nil => simp
    | cons x r => simp [hr x rfl]
  | a :: l, r, hl, hr => by
    have ha : p a = true := hl a (by simp)
    have ih := takeWhile_append_stop p l r (fun x hx => hl x (by simp [hx])) hr
    simp [ha, ih.1, ih.2]

/-! ## `pU64` -/

theorem pU64_showNat (n : Nat) (rest : List Char) (hn : n < 2 ^ 64)
    (hrest : ∀ c, rest.head? = some c → c.isDigit = false) :
    pU64 (showNat n ++ rest) = some (n, rest) := by
  unfold pU64
  have h := takeWhile_append_stop Char.isDigit (showNat n) rest (showNat_isDigit n) hrest
  have hne : (showNat n).isEmpty = false := by
    cases hd : showNat n with
    | nil => exact absurd hd (showNat_ne_nil n)
    | cons _ _ => rfl
  have hv : (showNat n).foldl (fun acc c => 10 * acc + (c.toNat - '0'.toNat)) 0 = n := digitsVal_showNat n
  simp only [h.1, h.2, hne, hv, hn, if_true, Bool.false_eq_true, if_false]

theorem pU64_nondigit (inp : List Char) (h : ∀ c, inp.head? = some c → c.isDigit = false) : pU64 inp = none := by
  unfold pU64
  cases inp with
  | nil => simp
  | cons c t => simp [List.takeWhile, h c rfl]

/-! ## `checkedSize` -/

/-- the step of the `checked_mul` fold. -/
def csStep (acc : Option Nat) (v : Nat) : Option Nat :=
  match acc with
  | some n => if n * v < 2 ^ 64 then some (n * v) else none
  | none => none

theorem checkedSize_eq_foldl (s : List Nat) : checkedSize s = s.foldl csStep (some 1) := rfl

theorem csStep_foldl_none (s : List Nat) : s.foldl csStep none = none := by
  induction s with
  | nil => rfl
  | cons v s ih => simpa [csStep] using ih

theorem size_pos_of_pos (s : List Nat) (hs : ∀ v ∈ s, 0 < v) : 0 < size s := by
  induction s with
  | nil => simp [size]
  | cons w s ih =>
    simp only [size]
    exact Nat.mul_pos (hs w (by simp)) (ih (fun x hx => hs x (by simp [hx])))

/-- general form: the fold started at `a`, when every prefix product stays below 2^64. -/
theorem csStep_foldl_pos (s : List Nat) (a : Nat) (hpos : ∀ v ∈ s, 0 < v) (ha : 0 < a)
    (hlt : a * size s < 2 ^ 64) : s.foldl csStep (some a) = some (a * size s) := by
  induction s generalizing a with
  | nil => simp [size]
  | cons v s ih =>
    have hv : 0 < v := hpos v (by simp)
    have hs : ∀ w ∈ s, 0 < w := fun w hw => hpos w (by simp [hw])
    have hsz : 0 < size s := size_pos_of_pos s hs
    simp only [size] at hlt
    have h1 : a * v * size s = a * (v * size s) := Nat.mul_assoc _ _ _
    have hav : a * v < 2 ^ 64 := by
      have : a * v ≤ a * v * size s := Nat.le_mul_of_pos_right _ hsz
      omega
    simp only [List.foldl_cons, csStep, hav, if_true]
    rw [ih (a * v) hs (Nat.mul_pos ha hv) (by omega), size, h1]

/-- with all axes ≥ 1 the prefix products are bounded by the total, so `checked_elements` succeeds. -/
theorem checkedSize_of_pos (s : List Nat) (hpos : ∀ v ∈ s, 0 < v) (hlt : size s < 2 ^ 64) :
    checkedSize s = some (size s) := by
  have := csStep_foldl_pos s 1 hpos (by decide) (by simpa using hlt)
  rw [checkedSize_eq_foldl, this, Nat.one_mul]

theorem csStep_foldl_some (s : List Nat) (a n : Nat)
    (h : s.foldl csStep (some a) = some n) : n = a * size s := by
  induction s generalizing a with
  | nil => simpa [size] using h.symm
  | cons v s ih =>
    simp only [List.foldl_cons, csStep] at h
    by_cases hav : a * v < 2 ^ 64
    · simp only [hav, if_true] at h
      rw [ih _ h, size, Nat.mul_assoc]
    · simp only [hav, if_false] at h
      rw [csStep_foldl_none] at h
      cases h

/-- whenever `checked_elements` succeeds it returns the product. -/
theorem checkedSize_eq_some (s : List Nat) (n : Nat) (h : checkedSize s = some n) : n = size s := by
  have := csStep_foldl_some s 1 n h
  rw [this, Nat.one_mul]

theorem csStep_foldl_zero (s : List Nat) : s.foldl csStep (some 0) = some 0 := by
  induction s with
  | nil => rfl
  | cons v s ih => simpa [csStep] using ih

/-- first axis 0: the product is 0 from the first step on. -/
theorem checkedSize_zero_head (s : List Nat) : checkedSize (0 :: s) = some 0 := by
  rw [checkedSize_eq_foldl]
  simpa [csStep] using csStep_foldl_zero s

end Sfs
