/-
Helper lemmas (Bytes): little-endian byte round trip, decimal digits round trip, `pU64`, `checkedSize`,
ASCII byte/char conversions. Core Lean only. Stated generally (shared with C15/C16/C18).
-/
import SfsModel.Model.Text
namespace Sfs

/-! ## little-endian bytes -/

@[simp] theorem leBytes_length (k n : Nat) : (leBytes k n).length = k := by
  induction k generalizing n with
  | zero => simp [leBytes]
  | succ k ih => simp [leBytes, ih]

theorem leBytes_lt (k n : Nat) : ∀ b ∈ leBytes k n, b < 256 := by
  induction k generalizing n with
  | zero => simp [leBytes]
  | succ k ih =>
    intro b hb
    simp only [leBytes, List.mem_cons] at hb
    rcases hb with rfl | hb
    · exact Nat.mod_lt _ (by decide)
    · exact ih _ b hb

theorem ofLeBytes_leBytes (k n : Nat) : ofLeBytes (leBytes k n) = n % 256 ^ k := by
  induction k generalizing n with
  | zero => simp [leBytes, ofLeBytes, Nat.mod_one]
  | succ k ih =>
    simp only [leBytes, ofLeBytes, ih]
    rw [Nat.pow_succ, Nat.mul_comm (256 ^ k) 256, Nat.mod_mul]

theorem ofLeBytes_leBytes_of_lt (k n : Nat) (h : n < 256 ^ k) : ofLeBytes (leBytes k n) = n := by
  rw [ofLeBytes_leBytes, Nat.mod_eq_of_lt h]

theorem ofLeBytes_leBytes8 (n : Nat) (h : n < 2 ^ 64) : ofLeBytes (leBytes 8 n) = n :=
  ofLeBytes_leBytes_of_lt 8 n (by simpa using h)

theorem ofLeBytes_leBytes2 (n : Nat) (h : n < 65536) : ofLeBytes (leBytes 2 n) = n :=
  ofLeBytes_leBytes_of_lt 2 n (by simpa using h)

theorem ofLeBytes_lt (l : List Nat) (h : ∀ b ∈ l, b < 256) : ofLeBytes l < 256 ^ l.length := by
  induction l with
  | nil => simp [ofLeBytes]
  | cons b bs ih =>
    have hb : b < 256 := h b (by simp)
    have := ih (fun x hx => h x (by simp [hx]))
    simp only [ofLeBytes, List.length_cons, Nat.pow_succ]
    omega

/-! ## ASCII bytes / chars -/

@[simp] theorem bytesToChars_asciiBytes (s : List Char) : bytesToChars (asciiBytes s) = s := by
  induction s with
  | nil => rfl
  | cons c s ih =>
    simp only [bytesToChars, asciiBytes, List.map_cons, List.map_map] at ih ⊢
    rw [ih, Char.ofNat_toNat]

@[simp] theorem asciiBytes_append (a b : List Char) : asciiBytes (a ++ b) = asciiBytes a ++ asciiBytes b := by
  simp [asciiBytes]

@[simp] theorem bytesToChars_append (a b : List Nat) : bytesToChars (a ++ b) = bytesToChars a ++ bytesToChars b := by
  simp [bytesToChars]

@[simp] theorem asciiBytes_length (a : List Char) : (asciiBytes a).length = a.length := by
  simp [asciiBytes]

@[simp] theorem allAscii_append (a b : List Nat) : allAscii (a ++ b) = (allAscii a && allAscii b) := by
  simp [allAscii]

theorem allAscii_asciiBytes (s : List Char) (h : ∀ c ∈ s, c.toNat < 128) : allAscii (asciiBytes s) = true := by
  simp only [allAscii, asciiBytes, List.all_map, List.all_eq_true, Function.comp]
  intro c hc
  simpa using h c hc

/-! ## decimal digits -/

theorem digitsVal_eq (l : List Char) : digitsVal l = Nat.ofDigitChars 10 l 0 := rfl

theorem digitsVal_showNat (n : Nat) : digitsVal (showNat n) = n :=
  Nat.ofDigitChars_toDigits (by decide) (by decide)

theorem digitsVal_toDigits (n : Nat) : digitsVal (Nat.toDigits 10 n) = n :=
  Nat.ofDigitChars_toDigits (by decide) (by decide)

theorem digitsVal_append (a b : List Char) :
    digitsVal (a ++ b) = 10 ^ b.length * digitsVal a + digitsVal b := by
  rw [digitsVal_eq, Nat.ofDigitChars_append, Nat.ofDigitChars_eq_ofDigitChars_zero]
  rfl

@[simp] theorem digitsVal_replicate_zero (n : Nat) : digitsVal (List.replicate n '0') = 0 := by
  rw [digitsVal_eq, Nat.ofDigitChars_replicate_zero]; simp

theorem showNat_ne_nil (n : Nat) : showNat n ≠ [] := Nat.toDigits_ne_nil

theorem showNat_isDigit (n : Nat) : ∀ c ∈ showNat n, c.isDigit = true :=
  fun _ hc => Nat.isDigit_of_mem_toDigits (by decide) (by decide) hc

theorem toDigits_isDigit (n : Nat) : ∀ c ∈ Nat.toDigits 10 n, c.isDigit = true :=
  fun _ hc => Nat.isDigit_of_mem_toDigits (by decide) (by decide) hc

/-- the first character of a printed number is a digit. -/
theorem showNat_head (n : Nat) : ∃ c t, showNat n = c :: t ∧ c.isDigit = true := by
  cases h : showNat n with
  | nil => exact absurd h (showNat_ne_nil n)
  | cons c t => exact ⟨c, t, rfl, showNat_isDigit n c (by simp [h])⟩

/-- the last character of a printed number is a digit. -/
theorem showNat_last (n : Nat) : ∃ t c, showNat n = t ++ [c] ∧ c.isDigit = true := by
  have hne := showNat_ne_nil n
  refine ⟨(showNat n).dropLast, (showNat n).getLast hne, (List.dropLast_concat_getLast hne).symm, ?_⟩
  exact showNat_isDigit n _ (List.getLast_mem hne)

theorem isDigit_toNat {c : Char} (h : c.isDigit = true) : 48 ≤ c.toNat ∧ c.toNat ≤ 57 := by
  simp only [Char.isDigit, Bool.and_eq_true, decide_eq_true_eq] at h
  have h1 : '0'.val ≤ c.val := h.1
  have h2 : c.val ≤ '9'.val := h.2
  rw [UInt32.le_iff_toNat_le] at h1 h2
  exact ⟨h1, h2⟩

theorem isDigit_lt128 {c : Char} (h : c.isDigit = true) : c.toNat < 128 := by
  have := isDigit_toNat h; omega

/-! ## generic takeWhile/dropWhile split -/

theorem takeWhile_append_stop {α} (p : α → Bool) : ∀ (l r : List α), (∀ x ∈ l, p x = true) →
    (∀ x, r.head? = some x → p x = false) → (l ++ r).takeWhile p = l ∧ (l ++ r).dropWhile p = r
  | [], r, _, hr => by
    cases r with
    | nil => simp
    | cons x r => simp [hr x rfl]
  | a :: l, r, hl, hr => by
    have ha : p a = true := hl a (by simp)
    have ih := takeWhile_append_stop p l r (fun x hx => hl x (by simp [hx])) hr
    simp [ha, ih.1, ih.2]

/-! ## `pU64` -/

theorem pU64_showNat (n : Nat) (rest : List Char) (hn : n < 2 ^ 64)
    (hrest : ∀ c, rest.head? = some c → c.isDigit = false) :
    pU64 (showNat n ++ rest) = some (n, rest) := by
  unfold pU64
  have h := takeWhile_append_stop Char.isDigit (showNat n) rest (showNat_isDigit n) hrest
  have hne : (showNat n).isEmpty = false := by
    cases hd : showNat n with
    | nil => exact absurd hd (showNat_ne_nil n)
    | cons _ _ => rfl
  have hv : (showNat n).foldl (fun acc c => 10 * acc + (c.toNat - '0'.toNat)) 0 = n := digitsVal_showNat n
  simp only [h.1, h.2, hne, hv, hn, if_true, Bool.false_eq_true, if_false]

theorem pU64_nondigit (inp : List Char) (h : ∀ c, inp.head? = some c → c.isDigit = false) : pU64 inp = none := by
  unfold pU64
  cases inp with
  | nil => simp
  | cons c t => simp [List.takeWhile, h c rfl]

/-! ## `checkedSize` -/

/-- product of the non-zero lengths. -/
def nzSize (s : List Nat) : Nat := size (s.map (fun v => max v 1))

theorem nzSize_cons (v : Nat) (s : List Nat) : nzSize (v :: s) = max v 1 * nzSize s := rfl

theorem nzSize_pos (s : List Nat) : 0 < nzSize s := by
  induction s with
  | nil => simp [nzSize, size]
  | cons v s ih => rw [nzSize_cons]; exact Nat.mul_pos (by omega) ih

theorem size_le_nzSize (s : List Nat) : size s ≤ nzSize s := by
  induction s with
  | nil => simp [nzSize]
  | cons v s ih => rw [nzSize_cons, size]; exact Nat.mul_le_mul (by omega) ih

theorem nzStep_foldl_none (s : List Nat) : s.foldl nzStep none = none := by
  induction s with
  | nil => rfl
  | cons v s ih => simpa [nzStep] using ih

/-- the fold succeeds iff the product of the non-zero lengths (times the start value) fits. -/
theorem nzStep_foldl (s : List Nat) (a : Nat) (ha : 0 < a) (hlt : a < 2 ^ 64) :
    s.foldl nzStep (some a) = if a * nzSize s < 2 ^ 64 then some (a * nzSize s) else none := by
  induction s generalizing a with
  | nil => simp [nzSize, size, hlt]
  | cons v s ih =>
    have hm : 0 < max v 1 := by omega
    have hn : 0 < nzSize s := nzSize_pos s
    have hassoc : a * nzSize (v :: s) = a * max v 1 * nzSize s := by rw [nzSize_cons, Nat.mul_assoc]
    rw [hassoc]
    by_cases hav : a * max v 1 < 2 ^ 64
    · have hstep : nzStep (some a) v = some (a * max v 1) := by simp [nzStep, hav]
      rw [List.foldl_cons, hstep, ih _ (Nat.mul_pos ha hm) hav]
    · have hstep : nzStep (some a) v = none := by simp [nzStep, hav]
      have hle : a * max v 1 ≤ a * max v 1 * nzSize s := Nat.le_mul_of_pos_right _ hn
      rw [List.foldl_cons, hstep, nzStep_foldl_none, if_neg (by omega)]

theorem checkedSize_eq (s : List Nat) : checkedSize s = if nzSize s < 2 ^ 64 then some (size s) else none := by
  unfold checkedSize
  rw [nzStep_foldl s 1 (by decide) (by decide), Nat.one_mul]
  by_cases h : nzSize s < 2 ^ 64
  · simp only [h, if_true]
  · simp only [h, if_false]

theorem size_pos_of_pos (s : List Nat) (hs : ∀ v ∈ s, 0 < v) : 0 < size s := by
  induction s with
  | nil => simp [size]
  | cons w s ih =>
    simp only [size]
    exact Nat.mul_pos (hs w (by simp)) (ih (fun x hx => hs x (by simp [hx])))

theorem nzSize_of_pos (s : List Nat) (hpos : ∀ v ∈ s, 0 < v) : nzSize s = size s := by
  induction s with
  | nil => rfl
  | cons v s ih =>
    have hv : 0 < v := hpos v (by simp)
    rw [nzSize_cons, size, ih (fun w hw => hpos w (by simp [hw])), Nat.max_eq_left hv]

/-- with all axes ≥ 1 `checked_elements` succeeds iff the product fits. -/
theorem checkedSize_of_pos (s : List Nat) (hpos : ∀ v ∈ s, 0 < v) (hlt : size s < 2 ^ 64) :
    checkedSize s = some (size s) := by
  rw [checkedSize_eq, nzSize_of_pos s hpos, if_pos hlt]

/-- whenever `checked_elements` succeeds it returns the product. -/
theorem checkedSize_eq_some (s : List Nat) (n : Nat) (h : checkedSize s = some n) : n = size s := by
  rw [checkedSize_eq] at h
  split at h
  · exact (Option.some.inj h).symm
  · cases h

theorem checkedSize_lt (s : List Nat) (n : Nat) (h : checkedSize s = some n) : n < 2 ^ 64 := by
  have hn := checkedSize_eq_some s n h
  rw [checkedSize_eq] at h
  split at h
  · have := size_le_nzSize s; omega
  · cases h

theorem checkedSize_none_of_nz (s : List Nat) (h : 2 ^ 64 ≤ nzSize s) : checkedSize s = none := by
  rw [checkedSize_eq, if_neg (by omega)]

theorem checkedSize_none_of_le (s : List Nat) (h : 2 ^ 64 ≤ size s) : checkedSize s = none :=
  checkedSize_none_of_nz s (Nat.le_trans h (size_le_nzSize s))

end Sfs
