/-
Helper lemmas (Bytes).
-/
import SfsModel.Model.Text
namespace Sfs
end Sfs
