/-
Shared by the VCF and BCF round-trip proofs (Props/C12B.lean): the header text written by `headerText` parses back to the
sample names, the contig dictionary (no gaps: the encoder writes no `IDX`) and the string dictionary [PASS, GT], leaving the lines that follow untouched.
-/
import SfsModel.Spec.Container
namespace Sfs

/-! ## `splitBytes`, `splitLines` -/

theorem splitBytes_ne_nil (c : Nat) (l : List Nat) : splitBytes c l ≠ [] := by
  induction l with
  | nil => simp [splitBytes]
  | cons x xs ih =>
    unfold splitBytes
    split
    · simp
    · split <;> simp

/-- a segment without the separator is one field -/
theorem splitBytes_single (c : Nat) (x : List Nat) (h : c ∉ x) : splitBytes c x = [x] := by
  induction x with
  | nil => rfl
  | cons a x ih =>
    have ha : a ≠ c := fun e => h (by simp [e])
    simp only [splitBytes, ih (fun hx => h (by simp [hx]))]
    simp [ha]

/-- a segment without the separator, then the separator: the segment is the first field -/
theorem splitBytes_append_sep (c : Nat) (x rest : List Nat) (h : c ∉ x) :
    splitBytes c (x ++ c :: rest) = x :: splitBytes c rest := by
  induction x with
  | nil =>
    simp only [List.nil_append, splitBytes]
    split
    · rename_i h0; exact absurd h0 (splitBytes_ne_nil c rest)
    · rename_i h0; simp [h0]
  | cons a x ih =>
    have ha : a ≠ c := fun e => h (by simp [e])
    simp only [List.cons_append, splitBytes, ih (fun hx => h (by simp [hx]))]
    simp [ha]

theorem splitLines_nil : splitLines [] = [] := by decide

/-- a line without `\n`, then `\n`: the line is the first line, whatever follows (also nothing) -/
theorem splitLines_line (x rest : List Nat) (h : 10 ∉ x) : splitLines (x ++ 10 :: rest) = x :: splitLines rest := by
  unfold splitLines
  simp only [splitBytes_append_sep 10 x rest h]
  obtain ⟨a, t, ht⟩ := List.exists_cons_of_ne_nil (splitBytes_ne_nil 10 rest)
  rw [ht, List.getLast?_cons_cons]
  split <;> simp [List.dropLast]

/-- text made of `\n`-terminated lines splits into exactly these lines, and what follows starts a new line -/
theorem splitLines_flatMap (ls : List (List Nat)) (h : ∀ l ∈ ls, 10 ∉ l) (rest : List Nat) :
    splitLines (ls.flatMap (fun l => l ++ [10]) ++ rest) = ls ++ splitLines rest := by
  induction ls with
  | nil => simp
  | cons l ls ih =>
    have e : (l :: ls).flatMap (fun l => l ++ [10]) ++ rest = l ++ 10 :: (ls.flatMap (fun l => l ++ [10]) ++ rest) := by
      simp [List.flatMap_cons]
    rw [e, splitLines_line _ _ (h l (by simp)), ih (fun l' hl' => h l' (by simp [hl']))]
    simp

/-! ## strings and bytes -/

theorem strBytes_append (a b : String) : strBytes (a ++ b) = strBytes a ++ strBytes b := by
  simp [strBytes]

theorem mem_strBytes {s : String} {b : Nat} : b ∈ strBytes s ↔ ∃ c ∈ s.toList, c.toNat = b := by
  simp [strBytes]

theorem asciiString_strBytes (s : String) (h : ∀ c ∈ s.toList, c.toNat < 128) : asciiString (strBytes s) = some s := by
  unfold asciiString strBytes
  have hall : (s.toList.map Char.toNat).all (· < 128) = true := by
    simp only [List.all_map, List.all_eq_true, Function.comp, decide_eq_true_eq]
    exact h
  rw [if_pos hall]
  have hm : (s.toList.map Char.toNat).map Char.ofNat = s.toList := by
    rw [List.map_map]
    conv => rhs; rw [← List.map_id s.toList]
    apply List.map_congr_left
    intro c _
    simp [Char.ofNat_toNat]
  rw [hm, String.ofList_toList]

theorem strBytes_ne_nil {s : String} (h : s ≠ "") : strBytes s ≠ [] := by
  intro e
  apply h
  have : s.toList = [] := by simpa [strBytes] using e
  rw [← String.ofList_toList (s := s), this]

/-- the byte range of a contig-name character -/
theorem contigChar_range {c : Char} (h : c.isAlphanum = true ∨ c = '_' ∨ c = '.') :
    (48 ≤ c.toNat ∧ c.toNat ≤ 57) ∨ (65 ≤ c.toNat ∧ c.toNat ≤ 90) ∨ (97 ≤ c.toNat ∧ c.toNat ≤ 122) ∨
      c.toNat = 95 ∨ c.toNat = 46 := by
  rcases h with h | rfl | rfl
  · simp only [Char.isAlphanum, Char.isAlpha, Char.isUpper, Char.isLower, Char.isDigit, Bool.or_eq_true,
      Bool.and_eq_true, decide_eq_true_eq, ge_iff_le] at h
    rcases h with (⟨h1, h2⟩ | ⟨h1, h2⟩) | ⟨h1, h2⟩
    · rw [UInt32.le_iff_toNat_le] at h1 h2
      exact .inr (.inl ⟨h1, h2⟩)
    · rw [UInt32.le_iff_toNat_le] at h1 h2
      exact .inr (.inr (.inl ⟨h1, h2⟩))
    · rw [UInt32.le_iff_toNat_le] at h1 h2
      exact .inl ⟨h1, h2⟩
  · decide
  · decide

theorem wfContig_bytes {s : String} (h : WfContig s) {b : Nat} (hb : b ∈ strBytes s) :
    (48 ≤ b ∧ b ≤ 57) ∨ (65 ≤ b ∧ b ≤ 90) ∨ (97 ≤ b ∧ b ≤ 122) ∨ b = 95 ∨ b = 46 := by
  obtain ⟨c, hc, rfl⟩ := mem_strBytes.1 hb
  exact contigChar_range (h.2 c hc)

theorem wfContig_ascii {s : String} (h : WfContig s) : asciiString (strBytes s) = some s := by
  apply asciiString_strBytes
  intro c hc
  have := contigChar_range (h.2 c hc)
  omega

theorem wfName_ascii {s : String} (h : WfName s) : asciiString (strBytes s) = some s :=
  asciiString_strBytes s (fun c hc => (h.2 c hc).1)

theorem wfName_bytes {s : String} (h : WfName s) {b : Nat} (hb : b ∈ strBytes s) : b ≠ 9 ∧ b ≠ 10 ∧ b ≠ 13 := by
  obtain ⟨c, hc, rfl⟩ := mem_strBytes.1 hb
  obtain ⟨_, h1, h2, h3⟩ := h.2 c hc
  refine ⟨?_, ?_, ?_⟩
  · intro e; apply h1; apply Char.toNat_inj.1; rw [e]; rfl
  · intro e; apply h2; apply Char.toNat_inj.1; rw [e]; rfl
  · intro e; apply h3; apply Char.toNat_inj.1; rw [e]; rfl

/-! ## `hasInfix` -/

theorem hasInfix_false_of_not_mem (p l : List Nat) (x : Nat) (hx : x ∈ p) (hl : x ∉ l) : hasInfix p l = false := by
  induction l with
  | nil =>
    cases p with
    | nil => simp at hx
    | cons a p => rfl
  | cons a l ih =>
    unfold hasInfix
    rw [ih (fun h => hl (by simp [h]))]
    rw [Bool.or_false]
    cases hp : p.isPrefixOf (a :: l) with
    | false => rfl
    | true =>
      exfalso
      exact hl ((List.isPrefixOf_iff_prefix.1 hp).subset hx)

/-! ## the header lines -/

def contigLine (c : String) : List Nat := strBytes "##contig=<ID=" ++ strBytes c ++ [62]

def formatLine : List Nat := strBytes "##FORMAT=<ID=GT,Number=1,Type=String,Description=\"Genotype\">"

def chromLine (cols : List String) : List Nat := chromLinePrefix ++ joinTab (cols.map strBytes)

def headerLines (cols contigs : List String) : List (List Nat) :=
  strBytes "##fileformat=VCFv4.3" :: (contigs.map contigLine ++ [formatLine, chromLine cols])

theorem headerText_eq_lines (cols contigs : List String) :
    headerText cols contigs = (headerLines cols contigs).flatMap (fun l => l ++ [10]) := by
  have e1 : strBytes "##fileformat=VCFv4.3\n" = strBytes "##fileformat=VCFv4.3" ++ [10] := by decide
  have e2 : strBytes ">\n" = [62, 10] := by decide
  have e3 : strBytes "##FORMAT=<ID=GT,Number=1,Type=String,Description=\"Genotype\">\n" = formatLine ++ [10] := by decide
  unfold headerText headerLines
  rw [e1, e2, e3]
  simp [List.flatMap_cons, List.flatMap_append, List.flatMap_map, contigLine, chromLine]

/-! ## the header parser on the header lines -/

theorem joinTab_cons_cons (x y : List Nat) (xs : List (List Nat)) : joinTab (x :: y :: xs) = x ++ 9 :: joinTab (y :: xs) := rfl

theorem splitBytes_joinTab (ls : List (List Nat)) (hne : ls ≠ []) (h : ∀ l ∈ ls, 9 ∉ l) :
    splitBytes 9 (joinTab ls) = ls := by
  induction ls with
  | nil => exact absurd rfl hne
  | cons x xs ih =>
    cases xs with
    | nil => exact splitBytes_single 9 x (h x (by simp))
    | cons y ys =>
      rw [joinTab_cons_cons, splitBytes_append_sep 9 x _ (h x (by simp)), ih (by simp) (fun l hl => h l (by simp [hl]))]

theorem mapM_asciiString_strBytes (cols : List String) (h : ∀ c ∈ cols, asciiString (strBytes c) = some c) :
    (cols.map strBytes).mapM asciiString = some cols := by
  induction cols with
  | nil => rfl
  | cons c cs ih =>
    simp [List.mapM_cons, h c (by simp), ih (fun c' hc' => h c' (by simp [hc']))]

/-- a body without a comma carries no `,IDX=` attribute -/
theorem splitIdx_of_no_comma (body : List Nat) (h : 44 ∉ body) : splitIdx body = (none, body) := by
  unfold splitIdx
  have e : strBytes ",IDX=" = [44, 73, 68, 88, 61] := by decide
  simp only [e]
  split
  · rename_i hc
    exfalso
    simp only [Bool.and_eq_true] at hc
    have hp := List.isPrefixOf_iff_prefix.1 hc.2
    have hm : 44 ∈ (List.take (body.length -
        (List.takeWhile (fun b => decide (48 ≤ b ∧ b ≤ 57)) body.reverse).reverse.length) body).reverse :=
      hp.subset (by simp)
    exact h (List.mem_of_mem_take (List.mem_reverse.1 hm))
  · rfl

theorem lineIdx_of_no_comma (l : List Nat) (h : 44 ∉ l) : lineIdx l = none := by
  unfold lineIdx
  split
  · rw [splitIdx_of_no_comma _ (fun hm => h (List.dropLast_subset _ hm))]
  · rfl

theorem go_contigLine (c : String) (hc : WfContig c) (fuel : Nat) (ls : List (List Nat)) (acc strings : List (Option String))
    (hnew : some c ∉ acc) :
    parseVcfHeaderLines.go (fuel + 1) (contigLine c :: ls) acc strings =
      parseVcfHeaderLines.go fuel ls (acc ++ [some c]) strings := by
  have hno : ∀ b ∈ strBytes c, b ≠ 61 ∧ b ≠ 44 ∧ b ≠ 62 := by
    intro b hb
    have := wfContig_bytes hc hb
    omega
  have e0 : strBytes "##contig=<ID=" = [35, 35, 99, 111, 110, 116, 105, 103, 61, 60, 73, 68, 61] := by decide
  have h1 : (strBytes "##").isPrefixOf (contigLine c) = true := by
    have : strBytes "##" = [35, 35] := by decide
    simp [contigLine, e0, this]
  have h2 : hasInfix (strBytes "IDX=") (contigLine c) = false := by
    have e : strBytes "IDX=" = [73, 68, 88, 61] := by decide
    have ht : hasInfix [73, 68, 88, 61] (strBytes c ++ [62]) = false := by
      apply hasInfix_false_of_not_mem _ _ 61 (by simp)
      intro hm
      rcases List.mem_append.1 hm with hm | hm
      · exact (hno _ hm).1 rfl
      · simp at hm
    rw [e, contigLine, e0]
    simp [hasInfix, ht, List.isPrefixOf_cons_cons]
  have h3 : metaId "contig" (contigLine c) = some (strBytes c) := by
    have e : strBytes ("##" ++ "contig" ++ "=<ID=") = [35, 35, 99, 111, 110, 116, 105, 103, 61, 60, 73, 68, 61] := by decide
    unfold metaId
    simp only [e, contigLine, e0]
    simp
    rw [List.takeWhile_append_of_pos (by
      intro b hb
      have := hno b hb
      simp [this.2.1, this.2.2])]
    simp
  have h4 : lineIdx (contigLine c) = none := by
    apply lineIdx_of_no_comma
    intro hm
    simp only [contigLine, List.mem_append, List.mem_singleton] at hm
    rcases hm with (hm | hm) | hm
    · rw [e0] at hm; simp at hm
    · exact (hno _ hm).2.1 rfl
    · omega
  have h5 : dictInsert acc c none = some (acc ++ [some c]) := by
    simp [dictInsert, hnew]
  rw [parseVcfHeaderLines.go.eq_3]
  simp only [h1, h4, Option.isSome_none, Bool.false_eq_true, if_false, h2, h3, wfContig_ascii hc]
  simp [h5]


theorem go_contigLines (cs : List String) (hcs : ∀ c ∈ cs, WfContig c) (hnd : cs.Nodup) (f : Nat) (tail : List (List Nat))
    (acc strings : List (Option String)) (hacc : ∀ c ∈ cs, some c ∉ acc) :
    parseVcfHeaderLines.go (cs.length + f) (cs.map contigLine ++ tail) acc strings =
      parseVcfHeaderLines.go f tail (acc ++ cs.map some) strings := by
  induction cs generalizing acc with
  | nil => simp
  | cons c cs ih =>
    have e : (c :: cs).length + f = (cs.length + f) + 1 := by simp; omega
    have hnd' := List.nodup_cons.1 hnd
    rw [e, List.map_cons, List.cons_append, go_contigLine c (hcs c (by simp)) _ _ _ _ (hacc c (by simp)),
      ih (fun c' hc' => hcs c' (by simp [hc'])) hnd'.2]
    · simp
    · intro c' hc' hm
      rcases List.mem_append.1 hm with hm | hm
      · exact hacc c' (by simp [hc']) hm
      · simp only [List.mem_singleton, Option.some.injEq] at hm
        exact hnd'.1 (hm ▸ hc')

theorem go_formatLine (fuel : Nat) (ls : List (List Nat)) (contigs : List (Option String)) :
    parseVcfHeaderLines.go (fuel + 1) (formatLine :: ls) contigs [some "PASS"] =
      parseVcfHeaderLines.go fuel ls contigs [some "PASS", some "GT"] := by
  have h1 : (strBytes "##").isPrefixOf formatLine = true := by decide
  have h2 : hasInfix (strBytes "IDX=") formatLine = false := by decide
  have h3 : metaId "contig" formatLine = none := by decide
  have h4 : metaId "FILTER" formatLine = none := by decide
  have h5 : metaId "INFO" formatLine = none := by decide
  have h6 : metaId "FORMAT" formatLine = some [71, 84] := by decide
  have h7 : asciiString [71, 84] = some "GT" := by decide
  have h8 : metaLineOk formatLine = true := by decide
  have h9 : lineIdx formatLine = none := by decide
  have h10 : dictInsert [some "PASS"] "GT" none = some [some "PASS", some "GT"] := by decide
  rw [parseVcfHeaderLines.go.eq_3]
  simp only [h1, h9, Option.isSome_none, Bool.false_eq_true, if_false, h2, h3, h4, h5, h6]
  simp [h7, h8, h10]


theorem go_chromLine (cols : List String) (hc : cols ≠ []) (hcw : ∀ c ∈ cols, WfName c) (hnd : cols.Nodup) (fuel : Nat)
    (ls : List (List Nat)) (contigs strings : List (Option String)) :
    parseVcfHeaderLines.go (fuel + 1) (chromLine cols :: ls) contigs strings =
      some (⟨cols, contigs, strings⟩, ls) := by
  have e0 : chromLinePrefix = 35 :: 67 :: chromLinePrefix.drop 2 := by decide
  have h1 : (strBytes "##").isPrefixOf (chromLine cols) = false := by
    have : strBytes "##" = [35, 35] := by decide
    rw [this, chromLine, e0]
    simp [List.isPrefixOf_cons_cons]
  have h2 : chromLinePrefix.isPrefixOf (chromLine cols) = true := by
    simp [chromLine]
  have h3 : (chromLine cols).drop chromLinePrefix.length = joinTab (cols.map strBytes) := by
    simp [chromLine]
  have h4 : splitBytes 9 (joinTab (cols.map strBytes)) = cols.map strBytes := by
    apply splitBytes_joinTab _ (by simpa using hc)
    intro l hl
    obtain ⟨c, hc', rfl⟩ := List.mem_map.1 hl
    intro h9
    exact (wfName_bytes (hcw c hc') h9).1 rfl
  have h5 : (cols.map strBytes).mapM asciiString = some cols :=
    mapM_asciiString_strBytes cols (fun c hc' => wfName_ascii (hcw c hc'))
  have h6 : (cols.any fun x => x == "") = false := by
    simp only [List.any_eq_false, beq_iff_eq]
    intro c hc' e
    exact (hcw c hc').1 e
  rw [parseVcfHeaderLines.go.eq_3]
  simp only [h1, h2, h3, h4, h5, h6]
  simp [hnd]

theorem parseVcfHeaderLines_headerLines (cols contigs : List String) (hc : cols ≠ []) (hcw : ∀ c ∈ cols, WfName c)
    (hnd : cols.Nodup) (hg : ∀ c ∈ contigs, WfContig c) (hgn : contigs.Nodup) (rest : List (List Nat)) :
    parseVcfHeaderLines (headerLines cols contigs ++ rest) =
      some (⟨cols, contigs.map some, [some "PASS", some "GT"]⟩, rest) := by
  have h0 : (strBytes "##fileformat=VCFv4.").isPrefixOf (strBytes "##fileformat=VCFv4.3") = true := by decide
  have hl : (contigs.map contigLine ++ formatLine :: chromLine cols :: rest).length + 1 =
      contigs.length + (rest.length + 1 + 1 + 1) := by
    simp; omega
  unfold parseVcfHeaderLines headerLines
  simp only [List.cons_append, h0, List.append_assoc, List.nil_append]
  rw [hl, go_contigLines contigs hg hgn _ _ _ _ (by simp)]
  rw [go_formatLine, go_chromLine cols hc hcw hnd]
  simp
  decide

theorem mem_joinTab {ls : List (List Nat)} {b : Nat} (h : b ∈ joinTab ls) : b = 9 ∨ ∃ l ∈ ls, b ∈ l := by
  induction ls with
  | nil => simp [joinTab] at h
  | cons x xs ih =>
    cases xs with
    | nil => exact .inr ⟨x, by simp, by simpa [joinTab] using h⟩
    | cons y ys =>
      rw [joinTab_cons_cons] at h
      rcases List.mem_append.1 h with h | h
      · exact .inr ⟨x, by simp, h⟩
      · rcases List.mem_cons.1 h with h | h
        · exact .inl h
        · rcases ih h with h | ⟨l, hl, hb⟩
          · exact .inl h
          · exact .inr ⟨l, by simp [hl], hb⟩

/-- no header line contains a newline or a carriage return -/
theorem headerLines_bytes (cols contigs : List String) (hcw : ∀ c ∈ cols, WfName c)
    (hg : ∀ c ∈ contigs, WfContig c) : ∀ l ∈ headerLines cols contigs, 10 ∉ l ∧ 13 ∉ l := by
  intro l hl
  simp only [headerLines, List.mem_cons, List.mem_append, List.mem_map, List.not_mem_nil, or_false] at hl
  rcases hl with rfl | ⟨c, hc, rfl⟩ | rfl | rfl
  · decide
  · have e0 : strBytes "##contig=<ID=" = [35, 35, 99, 111, 110, 116, 105, 103, 61, 60, 73, 68, 61] := by decide
    have hb : ∀ b ∈ contigLine c, b ≠ 10 ∧ b ≠ 13 := by
      intro b hb
      simp only [contigLine, List.mem_append, List.mem_singleton] at hb
      rcases hb with (hb | hb) | hb
      · rw [e0] at hb; simp at hb; omega
      · have := wfContig_bytes (hg c hc) hb; omega
      · omega
    exact ⟨fun h => (hb _ h).1 rfl, fun h => (hb _ h).2 rfl⟩
  · decide
  · have hb : ∀ b ∈ chromLine cols, b ≠ 10 ∧ b ≠ 13 := by
      intro b hb
      simp only [chromLine, List.mem_append] at hb
      rcases hb with hb | hb
      · revert b; decide
      · rcases mem_joinTab hb with rfl | ⟨l, hl, hbl⟩
        · omega
        · obtain ⟨c, hc, rfl⟩ := List.mem_map.1 hl
          have := wfName_bytes (hcw c hc) hbl
          exact ⟨this.2.1, this.2.2⟩
    exact ⟨fun h => (hb _ h).1 rfl, fun h => (hb _ h).2 rfl⟩

theorem splitLines_headerText (cols contigs : List String) (hcw : ∀ c ∈ cols, WfName c)
    (hg : ∀ c ∈ contigs, WfContig c) (rest : List Nat) :
    splitLines (headerText cols contigs ++ rest) = headerLines cols contigs ++ splitLines rest := by
  rw [headerText_eq_lines]
  exact splitLines_flatMap _ (fun l hl => (headerLines_bytes cols contigs hcw hg l hl).1) rest

/-- `headerText` ends with a newline, so its lines are exactly its `\n`-terminated lines and whatever follows starts a new line. -/
theorem parseVcfHeaderLines_headerText (cols contigs : List String) (hc : cols ≠ []) (hcw : ∀ c ∈ cols, WfName c)
    (hnd : cols.Nodup) (hg : ∀ c ∈ contigs, WfContig c) (hgn : contigs.Nodup) (rest : List (List Nat)) :
    parseVcfHeaderLines (splitLines (headerText cols contigs) ++ rest) =
      some (⟨cols, contigs.map some, [some "PASS", some "GT"]⟩, rest) := by
  have h := splitLines_headerText cols contigs hcw hg []
  rw [List.append_nil, splitLines_nil, List.append_nil] at h
  rw [h]
  exact parseVcfHeaderLines_headerLines cols contigs hc hcw hnd hg hgn rest

end Sfs
