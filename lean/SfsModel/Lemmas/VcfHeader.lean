/-
Shared by the VCF and BCF round-trip proofs (Props/C12B.lean): the header text written by `headerText` parses back to the
sample names, the contig dictionary and the string dictionary [PASS, GT], leaving the lines that follow untouched.
-/
import SfsModel.Spec.Container
namespace Sfs

/-! ## `splitBytes`, `splitLines` -/

theorem splitBytes_ne_nil (c : Nat) (l : List Nat) : splitBytes c l ≠ [] := by
  induction l with
  | nil => simp [splitBytes]
  | cons x xs ih =>
    unfold splitBytes
    split
    · simp
    · split <;> simp

/-- a segment without the separator is one field -/
theorem splitBytes_single (c : Nat) (x : List Nat) (h : c ∉ x) : splitBytes c x = [x] := by
  induction x with
  | nil => rfl
  | cons a x ih =>
    have ha : a ≠ c := fun e => h (by simp [e])
    simp only [splitBytes, ih (fun hx => h (by simp [hx]))]
    simp [ha]

/-- a segment without the separator, then the separator: the segment is the first field -/
theorem splitBytes_append_sep (c : Nat) (x rest : List Nat) (h : c ∉ x) :
    splitBytes c (x ++ c :: rest) = x :: splitBytes c rest := by
  induction x with
  | nil =>
    simp only [List.nil_append, splitBytes]
    split
    · rename_i h0; exact absurd h0 (splitBytes_ne_nil c rest)
    · rename_i h0; simp [h0]
  | cons a x ih =>
    have ha : a ≠ c := fun e => h (by simp [e])
    simp only [List.cons_append, splitBytes, ih (fun hx => h (by simp [hx]))]
    simp [ha]

theorem splitLines_nil : splitLines [] = [] := by decide

/-- a line without `\n`, then `\n`: the line is the first line, whatever follows (also nothing) -/
theorem splitLines_line (x rest : List Nat) (h : 10 ∉ x) : splitLines (x ++ 10 :: rest) = x :: splitLines rest := by
  unfold splitLines
  simp only [splitBytes_append_sep 10 x rest h]
  obtain ⟨a, t, ht⟩ := List.exists_cons_of_ne_nil (splitBytes_ne_nil 10 rest)
  rw [ht, List.getLast?_cons_cons]
  split <;> simp [List.dropLast]

/-- text made of `\n`-terminated lines splits into exactly these lines, and what follows starts a new line -/
theorem splitLines_flatMap (ls : List (List Nat)) (h : ∀ l ∈ ls, 10 ∉ l) (rest : List Nat) :
    splitLines (ls.flatMap (fun l => l ++ [10]) ++ rest) = ls ++ splitLines rest := by
  induction ls with
  | nil => simp
  | cons l ls ih =>
    have e : (l :: ls).flatMap (fun l => l ++ [10]) ++ rest = l ++ 10 :: (ls.flatMap (fun l => l ++ [10]) ++ rest) := by
      simp [List.flatMap_cons]
    rw [e, splitLines_line _ _ (h l (by simp)), ih (fun l' hl' => h l' (by simp [hl']))]
    simp

/-! ## strings and bytes -/

theorem strBytes_append (a b : String) : strBytes (a ++ b) = strBytes a ++ strBytes b := by
  simp [strBytes]

theorem mem_strBytes {s : String} {b : Nat} : b ∈ strBytes s ↔ ∃ c ∈ s.toList, c.toNat = b := by
  simp [strBytes]

theorem asciiString_strBytes (s : String) (h : ∀ c ∈ s.toList, c.toNat < 128) : asciiString (strBytes s) = some s := by
  unfold asciiString strBytes
  have hall : (s.toList.map Char.toNat).all (· < 128) = true := by
    simp only [List.all_map, List.all_eq_true, Function.comp, decide_eq_true_eq]
    exact h
  rw [if_pos hall]
  have hm : (s.toList.map Char.toNat).map Char.ofNat = s.toList := by
    rw [List.map_map]
    conv => rhs; rw [← List.map_id s.toList]
    apply List.map_congr_left
    intro c _
    simp [Char.ofNat_toNat]
  rw [hm, String.ofList_toList]

theorem strBytes_ne_nil {s : String} (h : s ≠ "") : strBytes s ≠ [] := by
  intro e
  apply h
  have : s.toList = [] := by simpa [strBytes] using e
  rw [← String.ofList_toList (s := s), this]

/-- the byte range of a contig-name character -/
theorem contigChar_range {c : Char} (h : c.isAlphanum = true ∨ c = '_' ∨ c = '.') :
    (48 ≤ c.toNat ∧ c.toNat ≤ 57) ∨ (65 ≤ c.toNat ∧ c.toNat ≤ 90) ∨ (97 ≤ c.toNat ∧ c.toNat ≤ 122) ∨
      c.toNat = 95 ∨ c.toNat = 46 := by
  rcases h with h | rfl | rfl
  · simp only [Char.isAlphanum, Char.isAlpha, Char.isUpper, Char.isLower, Char.isDigit, Bool.or_eq_true,
      Bool.and_eq_true, decide_eq_true_eq, ge_iff_le] at h
    rcases h with (⟨h1, h2⟩ | ⟨h1, h2⟩) | ⟨h1, h2⟩
    · rw [UInt32.le_iff_toNat_le] at h1 h2
      exact .inr (.inl ⟨h1, h2⟩)
    · rw [UInt32.le_iff_toNat_le] at h1 h2
      exact .inr (.inr (.inl ⟨h1, h2⟩))
    · rw [UInt32.le_iff_toNat_le] at h1 h2
      exact .inl ⟨h1, h2⟩
  · decide
  · decide

theorem wfContig_bytes {s : String} (h : WfContig s) {b : Nat} (hb : b ∈ strBytes s) :
    (48 ≤ b ∧ b ≤ 57) ∨ (65 ≤ b ∧ b ≤ 90) ∨ (97 ≤ b ∧ b ≤ 122) ∨ b = 95 ∨ b = 46 := by
  obtain ⟨c, hc, rfl⟩ := mem_strBytes.1 hb
  exact contigChar_range (h.2 c hc)

theorem wfContig_ascii {s : String} (h : WfContig s) : asciiString (strBytes s) = some s := by
  apply asciiString_strBytes
  intro c hc
  have := contigChar_range (h.2 c hc)
  omega

theorem wfName_ascii {s : String} (h : WfName s) : asciiString (strBytes s) = some s :=
  asciiString_strBytes s (fun c hc => (h.2 c hc).1)

theorem wfName_bytes {s : String} (h : WfName s) {b : Nat} (hb : b ∈ strBytes s) : b ≠ 9 ∧ b ≠ 10 ∧ b ≠ 13 := by
  obtain ⟨c, hc, rfl⟩ := mem_strBytes.1 hb
  obtain ⟨_, h1, h2, h3⟩ := h.2 c hc
  refine ⟨?_, ?_, ?_⟩
  · intro e; apply h1; apply Char.toNat_inj.1; rw [e]; rfl
  · intro e; apply h2; apply Char.toNat_inj.1; rw [e]; rfl
  · intro e; apply h3; apply Char.toNat_inj.1; rw [e]; rfl

/-! ## `hasInfix` -/

theorem hasInfix_false_of_not_mem (p l : List Nat) (x : Nat) (hx : x ∈ p) (hl : x ∉ l) : hasInfix p l = false := by
  induction l with
  | nil =>
    cases p with
    | nil => simp at hx
    | cons a p => rfl
  | cons a l ih =>
    unfold hasInfix
    rw [ih (fun h => hl (by simp [h]))]
    rw [Bool.or_false]
    cases hp : p.isPrefixOf (a :: l) with
    | false => rfl
    | true =>
      exfalso
      exact hl ((List.isPrefixOf_iff_prefix.1 hp).subset hx)

/-! ## the header lines -/

def contigLine (c : String) : List Nat := strBytes "##contig=<ID=" ++ strBytes c ++ [62]

def formatLine : List Nat := strBytes "##FORMAT=<ID=GT,Number=1,Type=String,Description=\"Genotype\">"

def chromLine (cols : List String) : List Nat := chromLinePrefix ++ joinTab (cols.map strBytes)

def headerLines (cols contigs : List String) : List (List Nat) :=
  strBytes "##fileformat=VCFv4.3" :: (contigs.map contigLine ++ [formatLine, chromLine cols])

theorem headerText_eq_lines (cols contigs : List String) :
    headerText cols contigs = (headerLines cols contigs).flatMap (fun l => l ++ [10]) := by
  have e1 : strBytes "##fileformat=VCFv4.3\n" = strBytes "##fileformat=VCFv4.3" ++ [10] := by decide
  have e2 : strBytes ">\n" = [62, 10] := by decide
  have e3 : strBytes "##FORMAT=<ID=GT,Number=1,Type=String,Description=\"Genotype\">\n" = formatLine ++ [10] := by decide
  unfold headerText headerLines
  rw [e1, e2, e3]
  simp [List.flatMap_cons, List.flatMap_append, List.flatMap_map, contigLine, chromLine]

/-- `headerText` ends with a newline, so its lines are exactly its `\n`-terminated lines and whatever follows starts a new line. -/
theorem parseVcfHeaderLines_headerText (cols contigs : List String) (hc : cols ≠ []) (hcw : ∀ c ∈ cols, WfName c)
    (hg : ∀ c ∈ contigs, WfContig c) (rest : List (List Nat)) :
    parseVcfHeaderLines (splitLines (headerText cols contigs) ++ rest) =
      some (⟨cols, contigs, ["PASS", "GT"]⟩, rest) := by
  sorry

end Sfs
