/-
Shared by the VCF and BCF round-trip proofs (Props/C12B.lean): the header text written by `headerText` parses back to the
sample names, the contig dictionary and the string dictionary [PASS, GT], leaving the lines that follow untouched.
-/
import SfsModel.Spec.Container
namespace Sfs

/-- `headerText` ends with a newline, so its lines are exactly its `\n`-terminated lines and whatever follows starts a new line. -/
theorem parseVcfHeaderLines_headerText (cols contigs : List String) (hc : cols ≠ []) (hcw : ∀ c ∈ cols, WfName c)
    (hg : ∀ c ∈ contigs, WfContig c) (rest : List (List Nat)) :
    parseVcfHeaderLines (splitLines (headerText cols contigs) ++ rest) =
      some (⟨cols, contigs, ["PASS", "GT"]⟩, rest) := by
  sorry

end Sfs
