/-
Helper lemmas for C07X (15 significant digits).
-/
import SfsModel.Lemmas.TextValue
namespace Sfs

end Sfs
