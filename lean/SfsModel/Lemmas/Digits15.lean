/-
Helper lemmas for C07X (15 significant digits): the exponent normalisation and mantissa rounding of
`f64BitsOfRatNonneg` in the normal range, the value of the assembled pattern, the relative error bound 2^-53,
and the print-back of decimals with at most 15 significant digits.
-/
import SfsModel.Lemmas.TextValue
import SfsModel.Lemmas.IntText
import SfsModel.Lemmas.NpyDecode
import Mathlib.Algebra.Order.Field.Basic
import Mathlib.Algebra.Order.Field.Rat
import Mathlib.Tactic.Ring
import Mathlib.Tactic.Linarith
import Mathlib.Tactic.FieldSimp
import Mathlib.Tactic.NormNum
namespace Sfs

/-! ## powers of two with integer exponents -/

theorem d15_two_ne : (2 : Rat) ≠ 0 := by norm_num

theorem d15_zpow_pos (e : Int) : (0 : Rat) < (2 : Rat) ^ e := zpow_pos (by norm_num) e

theorem d15_zpow_toNat (e : Int) (h : 0 ≤ e) : (((2 : Nat) ^ e.toNat : Nat) : Rat) = (2 : Rat) ^ e := by
  rw [Nat.cast_pow, Nat.cast_ofNat, ← zpow_natCast, Int.toNat_of_nonneg h]

theorem d15_zpow_nat (k : Nat) : (((2 : Nat) ^ k : Nat) : Rat) = (2 : Rat) ^ (k : Int) := by
  rw [Nat.cast_pow, Nat.cast_ofNat, zpow_natCast]

theorem d15_zpow_neg_toNat (e : Int) (h : e ≤ 0) :
    (((2 : Nat) ^ (-e).toNat : Nat) : Rat) * (2 : Rat) ^ e = 1 := by
  rw [d15_zpow_toNat (-e) (by omega), ← zpow_add₀ d15_two_ne, neg_add_cancel, zpow_zero]

theorem d15_zpow_add (a b : Int) : (2 : Rat) ^ (a + b) = (2 : Rat) ^ a * (2 : Rat) ^ b := zpow_add₀ d15_two_ne a b

theorem d15_zpow_lt (a b : Int) : (2 : Rat) ^ a < (2 : Rat) ^ b ↔ a < b :=
  zpow_lt_zpow_iff_right₀ (by norm_num)

/-! ## the exact comparison `ge` and the exponent -/

/-- the comparison `2^e ≤ N / D` as computed by `f64BitsOfRatNonneg`. -/
def d15_ge (N D : Nat) (e : Int) : Bool :=
  if e ≥ 0 then N ≥ D * 2 ^ e.toNat else N * 2 ^ (-e).toNat ≥ D

theorem d15_ge_iff (N D : Nat) (e : Int) : d15_ge N D e = true ↔ (2 : Rat) ^ e * (D : Rat) ≤ (N : Rat) := by
  unfold d15_ge
  by_cases h : e ≥ 0
  · rw [if_pos h, decide_eq_true_iff, ← d15_zpow_toNat e h, mul_comm]
    exact_mod_cast Iff.rfl
  · rw [if_neg h, decide_eq_true_iff]
    have h1 := d15_zpow_neg_toNat e (by omega)
    have hp : (0 : Rat) < (((2 : Nat) ^ (-e).toNat : Nat) : Rat) := by
      exact_mod_cast Nat.pow_pos (by decide)
    generalize (2 : Nat) ^ (-e).toNat = K at *
    have h2 : (2 : Rat) ^ e = 1 / (K : Rat) := by
      rw [eq_div_iff (ne_of_gt hp), mul_comm]; exact h1
    rw [h2, one_div, inv_mul_le_iff₀ hp, mul_comm]
    exact_mod_cast Iff.rfl

/-- the exponent chosen by `f64BitsOfRatNonneg`. -/
def d15_exp (N D : Nat) : Int :=
  let e0 : Int := (log2Nat N : Int) - (log2Nat D : Int)
  if d15_ge N D e0 then (if d15_ge N D (e0 + 1) then e0 + 1 else e0) else e0 - 1

theorem d15_log2_rat (n : Nat) (hn : n ≠ 0) :
    (2 : Rat) ^ (log2Nat n : Int) ≤ (n : Rat) ∧ (n : Rat) < (2 : Rat) ^ ((log2Nat n : Int) + 1) := by
  obtain ⟨h1, h2⟩ := log2_bounds n hn
  unfold log2Nat
  constructor
  · rw [← d15_zpow_nat]; exact_mod_cast h1
  · have : ((Nat.log2 n : Int) + 1) = ((Nat.log2 n + 1 : Nat) : Int) := by omega
    rw [this, ← d15_zpow_nat]; exact_mod_cast h2

/-- the chosen exponent is `floor (log2 (N / D))`. -/
theorem d15_exp_spec (N D : Nat) (hN : N ≠ 0) (hD : D ≠ 0) :
    (2 : Rat) ^ (d15_exp N D) * (D : Rat) ≤ (N : Rat) ∧ (N : Rat) < (2 : Rat) ^ (d15_exp N D + 1) * (D : Rat) := by
  obtain ⟨n1, n2⟩ := d15_log2_rat N hN
  obtain ⟨d1, d2⟩ := d15_log2_rat D hD
  have hDpos : (0 : Rat) < (D : Rat) := by exact_mod_cast Nat.pos_of_ne_zero hD
  unfold d15_exp
  generalize (log2Nat N : Int) = a at *
  generalize (log2Nat D : Int) = b at *
  -- `ge (e0 + 1)` is false, `ge (e0 - 1)` is true
  have hup : (N : Rat) < (2 : Rat) ^ (a - b + 1) * (D : Rat) := by
    have e1 : (2 : Rat) ^ (a + 1) = (2 : Rat) ^ (a - b + 1) * (2 : Rat) ^ b := by
      rw [← d15_zpow_add]; congr 1; omega
    calc (N : Rat) < (2 : Rat) ^ (a + 1) := n2
      _ = (2 : Rat) ^ (a - b + 1) * (2 : Rat) ^ b := e1
      _ ≤ (2 : Rat) ^ (a - b + 1) * (D : Rat) := mul_le_mul_of_nonneg_left d1 (le_of_lt (d15_zpow_pos _))
  have hdn : (2 : Rat) ^ (a - b - 1) * (D : Rat) ≤ (N : Rat) := by
    have e1 : (2 : Rat) ^ a = (2 : Rat) ^ (a - b - 1) * (2 : Rat) ^ (b + 1) := by
      rw [← d15_zpow_add]; congr 1; omega
    calc (2 : Rat) ^ (a - b - 1) * (D : Rat) ≤ (2 : Rat) ^ (a - b - 1) * (2 : Rat) ^ (b + 1) :=
          mul_le_mul_of_nonneg_left (le_of_lt d2) (le_of_lt (d15_zpow_pos _))
      _ = (2 : Rat) ^ a := e1.symm
      _ ≤ (N : Rat) := n1
  have hge1 : d15_ge N D (a - b + 1) = false := by
    rw [← Bool.not_eq_true, d15_ge_iff]; exact not_le.2 hup
  simp only [hge1, Bool.false_eq_true, if_false]
  by_cases hg : d15_ge N D (a - b) = true
  · rw [if_pos hg]
    exact ⟨(d15_ge_iff _ _ _).1 hg, hup⟩
  · rw [if_neg hg]
    refine ⟨hdn, ?_⟩
    rw [d15_ge_iff, not_le] at hg
    rw [show a - b - 1 + 1 = a - b by omega]
    exact hg

/-! ## the scaled pair and the mantissa -/

/-- numerator / denominator of `(N / D) / 2^sh` as computed by `f64BitsOfRatNonneg`. -/
def d15_pair (N D : Nat) (sh : Int) : Nat × Nat :=
  if sh ≥ 0 then (N, D * 2 ^ sh.toNat) else (N * 2 ^ (-sh).toNat, D)

theorem d15_pair_spec (N D : Nat) (sh : Int) (hD : D ≠ 0) :
    0 < (d15_pair N D sh).2 ∧
      ((d15_pair N D sh).1 : Rat) * ((2 : Rat) ^ sh * (D : Rat)) = (N : Rat) * ((d15_pair N D sh).2 : Rat) := by
  unfold d15_pair
  by_cases h : sh ≥ 0
  · rw [if_pos h]
    refine ⟨Nat.mul_pos (Nat.pos_of_ne_zero hD) (Nat.pow_pos (by decide)), ?_⟩
    show (N : Rat) * ((2 : Rat) ^ sh * (D : Rat)) = (N : Rat) * ((D * 2 ^ sh.toNat : Nat) : Rat)
    rw [Nat.cast_mul, d15_zpow_toNat sh h, mul_comm ((2 : Rat) ^ sh)]
  · rw [if_neg h]
    refine ⟨Nat.pos_of_ne_zero hD, ?_⟩
    show ((N * 2 ^ (-sh).toNat : Nat) : Rat) * ((2 : Rat) ^ sh * (D : Rat)) = (N : Rat) * (D : Rat)
    rw [Nat.cast_mul, mul_assoc, ← mul_assoc _ ((2 : Rat) ^ sh), d15_zpow_neg_toNat sh (by omega), one_mul]

theorem d15_roundHE_ge (n d : Nat) : n / d ≤ roundHE n d := by
  unfold roundHE
  split
  · omega
  · split
    · omega
    · split <;> omega

/-- cancel a positive natural factor in a rational inequality. -/
theorem d15_cancel_le (a b : Rat) (d : Nat) (hd : 0 < d) (h : a * (d : Rat) ≤ b * (d : Rat)) : a ≤ b := by
  have hd' : (0 : Rat) < (d : Rat) := by exact_mod_cast hd
  exact le_of_mul_le_mul_right h hd'

theorem d15_cancel_lt (a b : Rat) (d : Nat) (hd : 0 < d) (h : a * (d : Rat) < b * (d : Rat)) : a < b := by
  have hd' : (0 : Rat) < (d : Rat) := by exact_mod_cast hd
  exact lt_of_mul_lt_mul_right h (le_of_lt hd')

/-- with `2^e ≤ N/D < 2^(e+1)` the scaled quotient lies in `[2^52, 2^53)`. -/
theorem d15_pair_range (N D : Nat) (e : Int) (hD : D ≠ 0)
    (h1 : (2 : Rat) ^ e * (D : Rat) ≤ (N : Rat)) (h2 : (N : Rat) < (2 : Rat) ^ (e + 1) * (D : Rat)) :
    2 ^ 52 * (d15_pair N D (e - 52)).2 ≤ (d15_pair N D (e - 52)).1 ∧
      (d15_pair N D (e - 52)).1 < 2 ^ 53 * (d15_pair N D (e - 52)).2 := by
  obtain ⟨hd, hs⟩ := d15_pair_spec N D (e - 52) hD
  generalize (d15_pair N D (e - 52)).1 = n2 at *
  generalize (d15_pair N D (e - 52)).2 = d2 at *
  have hsD : (0 : Rat) < (2 : Rat) ^ (e - 52) * (D : Rat) :=
    mul_pos (d15_zpow_pos _) (by exact_mod_cast Nat.pos_of_ne_zero hD)
  have hd2 : (0 : Rat) < (d2 : Rat) := by exact_mod_cast hd
  have e1 : (2 : Rat) ^ e = (2 : Rat) ^ (52 : Int) * (2 : Rat) ^ (e - 52) := by
    rw [← d15_zpow_add]; congr 1; omega
  have e2 : (2 : Rat) ^ (e + 1) = (2 : Rat) ^ (53 : Int) * (2 : Rat) ^ (e - 52) := by
    rw [← d15_zpow_add]; congr 1; omega
  constructor
  · have : (((2 ^ 52 * d2 : Nat)) : Rat) ≤ (n2 : Rat) := by
      rw [Nat.cast_mul, d15_zpow_nat 52]
      apply le_of_mul_le_mul_right _ hsD
      rw [hs]
      calc (2 : Rat) ^ ((52 : Nat) : Int) * (d2 : Rat) * ((2 : Rat) ^ (e - 52) * (D : Rat))
          = ((2 : Rat) ^ (52 : Int) * (2 : Rat) ^ (e - 52) * (D : Rat)) * (d2 : Rat) := by push_cast; ring
        _ ≤ (N : Rat) * (d2 : Rat) := by rw [← e1]; exact mul_le_mul_of_nonneg_right h1 (le_of_lt hd2)
    exact_mod_cast this
  · have : (n2 : Rat) < (((2 ^ 53 * d2 : Nat)) : Rat) := by
      rw [Nat.cast_mul, d15_zpow_nat 53]
      apply lt_of_mul_lt_mul_right _ (le_of_lt hsD)
      rw [hs]
      calc (N : Rat) * (d2 : Rat) < ((2 : Rat) ^ (e + 1) * (D : Rat)) * (d2 : Rat) :=
            mul_lt_mul_of_pos_right h2 hd2
        _ = (2 : Rat) ^ ((53 : Nat) : Int) * (d2 : Rat) * ((2 : Rat) ^ (e - 52) * (D : Rat)) := by
            rw [e2]; push_cast; ring
    exact_mod_cast this

/-- the mantissa lies in `[2^52, 2^53]`. -/
theorem d15_mant_range (n2 d2 : Nat) (hd : 0 < d2) (h1 : 2 ^ 52 * d2 ≤ n2) (h2 : n2 < 2 ^ 53 * d2) :
    2 ^ 52 ≤ roundHE n2 d2 ∧ roundHE n2 d2 ≤ 2 ^ 53 := by
  constructor
  · exact Nat.le_trans ((Nat.le_div_iff_mul_le hd).2 h1) (d15_roundHE_ge n2 d2)
  · exact roundHE_le n2 d2 _ h2

/-- the rounded mantissa times `2^sh` is within half a unit `2^sh` of `N / D`. -/
theorem d15_mant_error (N D : Nat) (sh : Int) (hD : D ≠ 0) :
    absRat ((roundHE (d15_pair N D sh).1 (d15_pair N D sh).2 : Rat) * (2 : Rat) ^ sh - (N : Rat) / (D : Rat))
      ≤ (2 : Rat) ^ sh / 2 := by
  obtain ⟨hd, hs⟩ := d15_pair_spec N D sh hD
  obtain ⟨b1, b2⟩ := roundHE_bounds (d15_pair N D sh).1 (d15_pair N D sh).2 hd
  generalize (d15_pair N D sh).1 = n2 at *
  generalize (d15_pair N D sh).2 = d2 at *
  generalize roundHE n2 d2 = m at *
  have hDp : (0 : Rat) < (D : Rat) := by exact_mod_cast Nat.pos_of_ne_zero hD
  have hd2 : (0 : Rat) < (d2 : Rat) := by exact_mod_cast hd
  have hsp := d15_zpow_pos sh
  generalize (2 : Rat) ^ sh = s at *
  have b1' : (2 * ((m : Rat) * (d2 : Rat)) : Rat) ≤ 2 * (n2 : Rat) + (d2 : Rat) := by exact_mod_cast b1
  have b2' : (2 * (n2 : Rat) : Rat) ≤ 2 * ((m : Rat) * (d2 : Rat)) + (d2 : Rat) := by exact_mod_cast b2
  have hq : (N : Rat) / (D : Rat) = (n2 : Rat) / (d2 : Rat) * s := by
    rw [div_mul_eq_mul_div, div_eq_div_iff (ne_of_gt hDp) (ne_of_gt hd2), ← hs]; ring
  have hn2 : (n2 : Rat) = (n2 : Rat) / (d2 : Rat) * (d2 : Rat) := (div_mul_cancel₀ _ (ne_of_gt hd2)).symm
  generalize (n2 : Rat) / (d2 : Rat) = r at *
  rw [hq]
  have x1 : (m : Rat) - r ≤ 1 / 2 := by
    apply le_of_mul_le_mul_right _ hd2
    rw [hn2] at b1'; linarith
  have x2 : -(1 / 2) ≤ (m : Rat) - r := by
    apply le_of_mul_le_mul_right _ hd2
    rw [hn2] at b2'; linarith
  apply absRat_le_of
  · have := mul_le_mul_of_nonneg_right x2 (le_of_lt hsp); linarith
  · have := mul_le_mul_of_nonneg_right x1 (le_of_lt hsp); linarith

/-! ## the assembled pattern -/

theorem d15_f64Val_normal (E mm : Nat) (hE0 : 0 < E) (hE : E < 2047) :
    f64Val false E mm = .fin (((2 ^ 52 + mm : Nat) : Rat) * (2 : Rat) ^ ((E : Int) - 1075)) := by
  by_cases h : E < 1075
  · rw [f64Val_frac false E mm hE0 h]
    simp only [Bool.false_eq_true, if_false]
    have e1 : (E : Int) - 1075 = -((1075 - E : Nat) : Int) := by omega
    rw [e1, d15_zpow_nat, div_eq_mul_inv, ← zpow_neg]
  · rw [f64Val_int false E mm ((2^52+mm) * 2^(E-1075)) hE0 hE (by intro; omega) (by intro; rfl)]
    simp only [Bool.false_eq_true, if_false]
    have e1 : (E : Int) - 1075 = ((E - 1075 : Nat) : Int) := by omega
    rw [e1, Nat.cast_mul, d15_zpow_nat]

theorem d15_core_normal (N D : Nat) (h1 : -1022 ≤ d15_exp N D) (h2 : d15_exp N D ≤ 1022) :
    it_core N D =
      (if roundHE (d15_pair N D (d15_exp N D - 52)).1 (d15_pair N D (d15_exp N D - 52)).2 = 2 ^ 53
       then (d15_exp N D + 1 + 1023).toNat * 2 ^ 52 + (2 ^ 52 - 2 ^ 52)
       else (d15_exp N D + 1023).toNat * 2 ^ 52 +
        (roundHE (d15_pair N D (d15_exp N D - 52)).1 (d15_pair N D (d15_exp N D - 52)).2 - 2 ^ 52)) := by
  unfold it_core
  extract_lets e0 ge e eeff sh
  have he : e = d15_exp N D := rfl
  have hnl : ¬ (e < -1022) := by omega
  have heeff : eeff = e := by simp only [eeff]; rw [if_neg hnl]
  have hsh : sh = e - 52 := by simp only [sh, heeff]
  have hpair : (if sh ≥ 0 then (N, D * 2 ^ sh.toNat) else (N * 2 ^ (-sh).toNat, D)) = d15_pair N D (e - 52) := by
    rw [hsh]; rfl
  clear_value sh eeff e ge e0
  rw [hpair, ← he]
  generalize d15_pair N D (e - 52) = pr
  obtain ⟨n2, d2⟩ := pr
  show (if e < -1022 then roundHE n2 d2 else
        match if roundHE n2 d2 = 2 ^ 53 then (2 ^ 52, eeff + 1) else (roundHE n2 d2, eeff) with
        | (m, ee) => if ee > 1023 then 2047 * 2 ^ 52 else (ee + 1023).toNat * 2 ^ 52 + (m - 2 ^ 52)) = _
  rw [if_neg hnl, heeff]
  generalize roundHE n2 d2 = m
  by_cases hm : m = 2 ^ 53
  · rw [if_pos hm, if_pos hm]
    show (if e + 1 > 1023 then 2047 * 2 ^ 52 else (e + 1 + 1023).toNat * 2 ^ 52 + (2 ^ 52 - 2 ^ 52)) = _
    rw [if_neg (by omega)]
  · rw [if_neg hm, if_neg hm]
    show (if e > 1023 then 2047 * 2 ^ 52 else (e + 1023).toNat * 2 ^ 52 + (m - 2 ^ 52)) = _
    rw [if_neg (by omega)]

theorem d15_bits_value (E mm : Nat) (hE0 : 0 < E) (hE : E < 2047) (hmm : mm < 2 ^ 52) :
    f64OfBits (E * 2 ^ 52 + mm) = .fin (((2 ^ 52 + mm : Nat) : Rat) * (2 : Rat) ^ ((E : Int) - 1075)) ∧
      E * 2 ^ 52 + mm < 2 ^ 63 := by
  constructor
  · have := f64OfBits_mk 0 E mm (by omega) (by omega) hmm
    rw [Nat.zero_mul, Nat.zero_add] at this
    rw [this]
    exact d15_f64Val_normal E mm hE0 hE
  · omega

theorem d15_aux (A B : Nat) (h : A * 2 = B) (x : Rat) : (A : Rat) * (2 * x) = (B : Rat) * x := by
  rw [← h, Nat.cast_mul, Nat.cast_ofNat]; ring

/-- value of the pattern in the normal range, with explicit exponent and mantissa. -/
theorem d15_core_value (N D : Nat) (hN : N ≠ 0) (hD : D ≠ 0) (h1 : -1022 ≤ d15_exp N D) (h2 : d15_exp N D ≤ 1022) :
    f64OfBits (it_core N D) =
      .fin ((roundHE (d15_pair N D (d15_exp N D - 52)).1 (d15_pair N D (d15_exp N D - 52)).2 : Rat) *
        (2 : Rat) ^ (d15_exp N D - 52)) ∧ it_core N D < 2 ^ 63 := by
  obtain ⟨s1, s2⟩ := d15_exp_spec N D hN hD
  obtain ⟨r1, r2⟩ := d15_pair_range N D _ hD s1 s2
  obtain ⟨hd, _⟩ := d15_pair_spec N D (d15_exp N D - 52) hD
  obtain ⟨m1, m2⟩ := d15_mant_range _ _ hd r1 r2
  rw [d15_core_normal N D h1 h2]
  generalize roundHE (d15_pair N D (d15_exp N D - 52)).1 (d15_pair N D (d15_exp N D - 52)).2 = m at *
  generalize d15_exp N D = e at *
  by_cases hm : m = 2 ^ 53
  · rw [if_pos hm]
    obtain ⟨v1, v2⟩ := d15_bits_value (e + 1 + 1023).toNat (2 ^ 52 - 2 ^ 52) (by omega) (by omega) (by omega)
    refine ⟨?_, v2⟩
    rw [v1, hm]
    congr 1
    have e1 : (((e + 1 + 1023).toNat : Nat) : Int) - 1075 = 1 + (e - 52) := by omega
    have h : (2 ^ 52 + (2 ^ 52 - 2 ^ 52)) * 2 = 2 ^ 53 := by decide
    rw [e1, d15_zpow_add, zpow_one]
    exact d15_aux _ _ h _
  · rw [if_neg hm]
    obtain ⟨v1, v2⟩ := d15_bits_value (e + 1023).toNat (m - 2 ^ 52) (by omega) (by omega) (by omega)
    refine ⟨?_, v2⟩
    have a1 : 2 ^ 52 + (m - 2 ^ 52) = m := by omega
    have a2 : (((e + 1023).toNat : Nat) : Int) - 1075 = e - 52 := by omega
    rw [v1, a1, a2]

/-! ## the nearest binary64 in the normal range -/

theorem d15_nearest_zpow (q : Rat) (hlo : (2 : Rat) ^ (-1022 : Int) ≤ q) (hhi : q < (2 : Rat) ^ (1023 : Int)) :
    ∃ v : Rat, f64OfBits (f64BitsOfRatNonneg q) = .fin v ∧ absRat (v - q) * (2 : Rat) ^ (53 : Int) ≤ q ∧
      f64BitsOfRatNonneg q < 2 ^ 63 := by
  have hq : 0 < q := lt_of_lt_of_le (d15_zpow_pos _) hlo
  have hN : q.num.natAbs ≠ 0 := by
    have := Rat.num_pos.2 hq
    omega
  have hD : q.den ≠ 0 := q.den_nz
  have hDp : (0 : Rat) < (q.den : Rat) := rat_den_pos q
  have hqe := rat_eq_natAbs_div q (le_of_lt hq)
  obtain ⟨s1, s2⟩ := d15_exp_spec _ _ hN hD
  rw [it_nonneg_eq q hq]
  have me := d15_mant_error q.num.natAbs q.den (d15_exp q.num.natAbs q.den - 52) hD
  rw [← hqe] at me
  have t1 : (2 : Rat) ^ (d15_exp q.num.natAbs q.den) ≤ q := by
    have := (le_div_iff₀ hDp).2 s1; rwa [← hqe] at this
  have t2 : q < (2 : Rat) ^ (d15_exp q.num.natAbs q.den + 1) := by
    have := (div_lt_iff₀ hDp).2 s2; rwa [← hqe] at this
  have b1 : d15_exp q.num.natAbs q.den < 1023 := (d15_zpow_lt _ _).1 (lt_of_le_of_lt t1 hhi)
  have b2 : -1022 < d15_exp q.num.natAbs q.den + 1 := (d15_zpow_lt _ _).1 (lt_of_le_of_lt hlo t2)
  obtain ⟨c1, c2⟩ := d15_core_value _ _ hN hD (by omega) (by omega)
  refine ⟨_, c1, ?_, c2⟩
  generalize d15_exp q.num.natAbs q.den = e at *
  generalize (roundHE (d15_pair q.num.natAbs q.den (e - 52)).1 (d15_pair q.num.natAbs q.den (e - 52)).2 : Rat) *
    (2 : Rat) ^ (e - 52) = v at *
  have e1 : (2 : Rat) ^ (e - 52) / 2 * (2 : Rat) ^ (53 : Int) = (2 : Rat) ^ e := by
    have : (2 : Rat) ^ (e + 1) = (2 : Rat) ^ (e - 52) * (2 : Rat) ^ (53 : Int) := by
      rw [← d15_zpow_add]; congr 1; omega
    have h2 : (2 : Rat) ^ (e + 1) = (2 : Rat) ^ e * 2 := by rw [d15_zpow_add, zpow_one]
    linarith
  calc absRat (v - q) * (2 : Rat) ^ (53 : Int) ≤ (2 : Rat) ^ (e - 52) / 2 * (2 : Rat) ^ (53 : Int) :=
        mul_le_mul_of_nonneg_right me (le_of_lt (d15_zpow_pos _))
    _ = (2 : Rat) ^ e := e1
    _ ≤ q := t1

set_option exponentiation.threshold 2000 in
theorem d15_nearest (q : Rat) (hlo : (1 : Rat) / ((2 ^ 1022 : Nat) : Rat) ≤ q) (hhi : q < ((2 ^ 1023 : Nat) : Rat)) :
    ∃ v : Rat, f64OfBits (f64BitsOfRatNonneg q) = .fin v ∧ absRat (v - q) * ((2 ^ 53 : Nat) : Rat) ≤ q ∧
      f64BitsOfRatNonneg q < 2 ^ 63 := by
  rw [d15_zpow_nat 1022, one_div, ← zpow_neg] at hlo
  rw [d15_zpow_nat 1023] at hhi
  rw [d15_zpow_nat 53]
  exact d15_nearest_zpow q hlo hhi

/-! ## printing the nearest binary64 of a short decimal -/

theorem d15_roundHE_unique (n d k : Nat) (hd : 0 < d) (h1 : 2 * n < 2 * (k * d) + d) (h2 : 2 * (k * d) < 2 * n + d) :
    roundHE n d = k := by
  obtain ⟨b1, b2⟩ := roundHE_bounds n d hd
  generalize roundHE n d = r at *
  have c1 : r * d < (k + 1) * d := by rw [Nat.add_mul, Nat.one_mul]; omega
  have c2 : k * d < (r + 1) * d := by rw [Nat.add_mul, Nat.one_mul]; omega
  have d1 := Nat.lt_of_mul_lt_mul_right c1
  have d2 := Nat.lt_of_mul_lt_mul_right c2
  omega

theorem d15_roundHE_exact (k d : Nat) (hd : 0 < d) : roundHE (k * d) d = k :=
  d15_roundHE_unique _ _ _ hd (by omega) (by omega)

theorem d15_absRat_ge (x : Rat) : x ≤ absRat x ∧ -x ≤ absRat x := by
  unfold absRat; split <;> constructor <;> linarith

/-- a decimal `M / T` prints as `M`. -/
theorem d15_scaled_exact (t : Rat) (M T : Nat) (hT : 0 < T) (ht : t = (M : Rat) / (T : Rat)) :
    roundHE (t.num.natAbs * T) t.den = M := by
  have hT' : (0 : Rat) < (T : Rat) := by exact_mod_cast hT
  have h0 : 0 ≤ t := by rw [ht]; exact div_nonneg (Nat.cast_nonneg _) (Nat.cast_nonneg _)
  have hqe := rat_eq_natAbs_div t h0
  have hb := rat_den_pos t
  have hd := t.den_pos
  generalize t.num.natAbs = a at *
  generalize t.den = b at *
  have key : a * T = M * b := by
    have : (a : Rat) / (b : Rat) = (M : Rat) / (T : Rat) := by rw [← hqe, ht]
    rw [div_eq_div_iff (ne_of_gt hb) (ne_of_gt hT')] at this
    exact_mod_cast this
  rw [key]
  exact d15_roundHE_exact M b hd

/-- a value within relative distance `1/K` of `M / T`, `2·M < K`, prints as `M`. -/
theorem d15_round_back (v t : Rat) (M T C K : Nat) (hT : 0 < T) (hM : M < C) (hK : 2 * C < K)
    (ht : t = (M : Rat) / (T : Rat)) (hv : 0 ≤ v) (h : absRat (v - t) * (K : Rat) ≤ t) :
    roundHE (v.num.natAbs * T) v.den = M := by
  have hT' : (0 : Rat) < (T : Rat) := by exact_mod_cast hT
  have hM' : (M : Rat) < (C : Rat) := by exact_mod_cast hM
  have hK' : 2 * (C : Rat) < (K : Rat) := by exact_mod_cast hK
  have hKp : (0 : Rat) < (K : Rat) := by
    have : (0 : Rat) ≤ (C : Rat) := Nat.cast_nonneg _
    linarith
  have htT : t * (T : Rat) = (M : Rat) := by rw [ht]; exact div_mul_cancel₀ _ (ne_of_gt hT')
  obtain ⟨g1, g2⟩ := d15_absRat_ge (v - t)
  have h1 : (v - t) * (K : Rat) ≤ t := le_trans (mul_le_mul_of_nonneg_right g1 (le_of_lt hKp)) h
  have h2 : (t - v) * (K : Rat) ≤ t := by
    have := le_trans (mul_le_mul_of_nonneg_right g2 (le_of_lt hKp)) h
    linarith
  -- scaled by T
  have x1 : (v * (T : Rat) - (M : Rat)) * (K : Rat) ≤ (M : Rat) := by
    have := mul_le_mul_of_nonneg_right h1 (le_of_lt hT')
    rw [← htT]; linarith
  have x2 : ((M : Rat) - v * (T : Rat)) * (K : Rat) ≤ (M : Rat) := by
    have := mul_le_mul_of_nonneg_right h2 (le_of_lt hT')
    rw [← htT]; linarith
  have y1 : v * (T : Rat) - (M : Rat) < 1 / 2 := by
    apply lt_of_mul_lt_mul_right _ (le_of_lt hKp)
    linarith
  have y2 : (M : Rat) - v * (T : Rat) < 1 / 2 := by
    apply lt_of_mul_lt_mul_right _ (le_of_lt hKp)
    linarith
  have hqe := rat_eq_natAbs_div v hv
  have hb := rat_den_pos v
  have hd := v.den_pos
  generalize v.num.natAbs = a at *
  generalize v.den = b at *
  have ha : (a : Rat) = v * (b : Rat) := by rw [hqe]; exact (div_mul_cancel₀ _ (ne_of_gt hb)).symm
  have z1 := mul_pos (sub_pos.2 y1) hb
  have z2 := mul_pos (sub_pos.2 y2) hb
  apply d15_roundHE_unique _ _ _ hd
  · have : (2 * ((a : Rat) * (T : Rat)) : Rat) < 2 * ((M : Rat) * (b : Rat)) + (b : Rat) := by
      rw [ha]; linarith
    exact_mod_cast this
  · have : (2 * ((M : Rat) * (b : Rat)) : Rat) < 2 * ((a : Rat) * (T : Rat)) + (b : Rat) := by
      rw [ha]; linarith
    exact_mod_cast this

theorem d15_consts : 10 ^ 300 ≤ 2 ^ 1022 ∧ 10 ^ 15 ≤ 2 ^ 1023 ∧ 2 * 10 ^ 15 < 2 ^ 53 := by decide +kernel

set_option exponentiation.threshold 2000 in
theorem d15_range (M p : Nat) (hM0 : 0 < M) (hM : M < 10 ^ 15) (hp : p ≤ 300) :
    (1 : Rat) / ((2 ^ 1022 : Nat) : Rat) ≤ (M : Rat) / ((10 ^ p : Nat) : Rat) ∧
      (M : Rat) / ((10 ^ p : Nat) : Rat) < ((2 ^ 1023 : Nat) : Rat) := by
  obtain ⟨c1, c2, _⟩ := d15_consts
  have hT : 0 < 10 ^ p := Nat.pow_pos (by decide)
  have hT2 : 10 ^ p ≤ 10 ^ 300 := Nat.pow_le_pow_right (by decide) hp
  have hA : 0 < 2 ^ 1022 := Nat.pow_pos (by decide)
  have hB : 0 < 2 ^ 1023 := Nat.pow_pos (by decide)
  generalize 10 ^ p = T at *
  generalize 2 ^ 1022 = A at *
  generalize 2 ^ 1023 = B at *
  generalize 10 ^ 300 = X at *
  generalize 10 ^ 15 = C at *
  have hT' : (0 : Rat) < (T : Rat) := by exact_mod_cast hT
  have hA' : (0 : Rat) < (A : Rat) := by exact_mod_cast hA
  constructor
  · rw [div_le_div_iff₀ hA' hT']
    have : 1 * T ≤ M * A := by
      rw [Nat.one_mul]
      exact Nat.le_trans (Nat.le_trans hT2 c1) (Nat.le_mul_of_pos_left _ hM0)
    exact_mod_cast this
  · apply nat_div_lt M T B hT
    exact Nat.lt_of_lt_of_le hM (Nat.le_trans c2 (Nat.le_mul_of_pos_right _ hT))

theorem d15_close_nonneg (v t K : Rat) (hK : 1 ≤ K) (h : absRat (v - t) * K ≤ t) : 0 ≤ v := by
  obtain ⟨_, g2⟩ := d15_absRat_ge (v - t)
  have := mul_le_mul_of_nonneg_left hK (absRat_nonneg (v - t))
  linarith

theorem d15_sign_of_lt (b : Nat) (h : b < 2 ^ 63) : f64Sign b = false := by
  unfold f64Sign
  rw [Nat.div_eq_of_lt h]
  rfl

/-- print-back with the side facts needed downstream. -/
theorem d15_print_back (M p : Nat) (hM : M < 10 ^ 15) (hp : p ≤ 300) :
    fmtFixed (f64BitsOfRatNonneg ((M : Rat) / ((10 ^ p : Nat) : Rat))) p = fmtScaled M p ∧
    fmtRatFixed ((M : Rat) / ((10 ^ p : Nat) : Rat)) p = fmtScaled M p ∧
    f64BitsOfRatNonneg ((M : Rat) / ((10 ^ p : Nat) : Rat)) < 2 ^ 63 ∧
    ∃ v, f64OfBits (f64BitsOfRatNonneg ((M : Rat) / ((10 ^ p : Nat) : Rat))) = .fin v := by
  have hT : 0 < 10 ^ p := Nat.pow_pos (by decide)
  have hR : fmtRatFixed ((M : Rat) / ((10 ^ p : Nat) : Rat)) p = fmtScaled M p := by
    rw [fmtRatFixed_eq, d15_scaled_exact _ M (10 ^ p) hT rfl]
  by_cases hM0 : M = 0
  · subst hM0
    have hz : f64BitsOfRatNonneg (((0 : Nat) : Rat) / ((10 ^ p : Nat) : Rat)) = 0 :=
      f64BitsOfRatNonneg_zero _ (by rw [Nat.cast_zero, zero_div])
    rw [hz]
    refine ⟨?_, hR, by decide, 0, f64OfBits_zero⟩
    rw [fmtFixed_fin 0 p 0 f64OfBits_zero, d15_sign_of_lt 0 (by decide), absRat_of_nonneg 0 (le_refl _),
      fmtRatFixed_eq]
    have := d15_scaled_exact 0 0 (10 ^ p) hT (by rw [Nat.cast_zero, zero_div])
    rw [this]
    rfl
  · obtain ⟨r1, r2⟩ := d15_range M p (Nat.pos_of_ne_zero hM0) hM hp
    obtain ⟨v, hv, herr, hlt⟩ := d15_nearest _ r1 r2
    refine ⟨?_, hR, hlt, v, hv⟩
    have hK1 : (1 : Rat) ≤ ((2 ^ 53 : Nat) : Rat) := by exact_mod_cast Nat.one_le_two_pow
    have hv0 := d15_close_nonneg _ _ _ hK1 herr
    rw [fmtFixed_fin _ p v hv, d15_sign_of_lt _ hlt, absRat_of_nonneg v hv0, fmtRatFixed_eq,
      d15_round_back v _ M (10 ^ p) (10 ^ 15) (2 ^ 53) hT hM d15_consts.2.2 rfl hv0 herr]
    rfl

/-! ## setting the sign bit -/

theorem d15_f64Val_neg (E m : Nat) (v : Rat) (h : f64Val false E m = .fin v) : f64Val true E m = .fin (-v) := by
  unfold f64Val at h ⊢
  split
  · rename_i he
    rw [if_pos he] at h
    split at h <;> cases h
  · rename_i he
    rw [if_neg he] at h
    extract_lets at h ⊢
    rw [if_neg (by decide)] at h
    rw [if_pos rfl]
    injection h with h
    rw [h]

theorem d15_neg_bits (b v) (hlt : b < 2 ^ 63) (hv : f64OfBits b = .fin v) :
    f64OfBits (2 ^ 63 + b) = .fin (-v) ∧ f64Sign (2 ^ 63 + b) = true := by
  constructor
  · rw [f64OfBits_eq] at hv ⊢
    have h1 : (2 ^ 63 + b) / 2 ^ 63 % 2 = 1 := by omega
    have h2 : (2 ^ 63 + b) / 2 ^ 52 % 2 ^ 11 = b / 2 ^ 52 % 2 ^ 11 := by omega
    have h3 : (2 ^ 63 + b) % 2 ^ 52 = b % 2 ^ 52 := by omega
    have h0 : b / 2 ^ 63 % 2 = 0 := by omega
    rw [h1, h2, h3]
    rw [h0] at hv
    exact d15_f64Val_neg _ _ _ hv
  · unfold f64Sign
    have h1 : (2 ^ 63 + b) / 2 ^ 63 % 2 = 1 := by omega
    rw [h1]; rfl

/-- text → npy → text on one value, in terms of `roundHE`. -/
theorem d15_text_npy_text (x p : Nat) (q : Rat) (hf : f64OfBits x = .fin q)
    (h15 : roundHE ((absRat q).num.natAbs * 10 ^ p) (absRat q).den < 10 ^ 15) (hp : p ≤ 300) (b' : Nat)
    (hb : b' = (if f64Sign x then 2 ^ 63 else 0) +
      f64BitsOfRatNonneg ((roundHE ((absRat q).num.natAbs * 10 ^ p) (absRat q).den : Rat) / ((10 ^ p : Nat) : Rat))) :
    fmtFixed b' p = fmtFixed x p := by
  obtain ⟨p1, _, hlt, v, hv⟩ := d15_print_back _ p h15 hp
  rw [fmtFixed_fin x p q hf, fmtRatFixed_eq]
  generalize roundHE ((absRat q).num.natAbs * 10 ^ p) (absRat q).den = R at *
  generalize f64BitsOfRatNonneg ((R : Rat) / ((10 ^ p : Nat) : Rat)) = b0 at *
  have p2 := p1
  rw [fmtFixed_fin b0 p v hv, d15_sign_of_lt b0 hlt] at p2
  simp only [Bool.false_eq_true, if_false, List.nil_append] at p2
  cases hs : f64Sign x
  · rw [hs] at hb
    simp only [Bool.false_eq_true, if_false, Nat.zero_add] at hb
    rw [hb, p1]; rfl
  · rw [hs] at hb
    simp only [if_true] at hb
    obtain ⟨n1, n2⟩ := d15_neg_bits b0 v hlt hv
    rw [hb, fmtFixed_fin _ p _ n1, n2, absRat_neg, p2]

end Sfs
