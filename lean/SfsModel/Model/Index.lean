/-
L0 — index arithmetic of `core/src/array/shape.rs`, `shape/strides.rs`, `shape/removed_axis.rs`.
Core Lean only (no Mathlib) so that the driver links as a `lean_exe`.

`usize` quantities are `Nat`; the places where Rust could overflow are guarded at the entry
points that construct shapes (`Arr.new?` uses the checked product, see Model/Array.lean).
-/
namespace Sfs

/-- `Shape::elements`: product of the axis lengths. -/
def size : List Nat → Nat
  | [] => 1
  | v :: s => v * size s

/-- `Shape::strides`: stride j = product of the lengths after axis j (row-major). -/
def strides : List Nat → List Nat
  | [] => []
  | _ :: s => size s :: strides s

/-- Row-major position of a multi-index (specification form). -/
def flat : List Nat → List Nat → Nat
  | _ :: s, i :: idx => i * size s + flat s idx
  | _, _ => 0

/-- `Strides::flat_index_unchecked`: zip-fold of `flat + stride * idx`. -/
def dot : List Nat → List Nat → Nat
  | a :: as, b :: bs => a * b + dot as bs
  | _, _ => 0

/-- `index.iter().zip(shape).all(|(idx, shape)| idx < shape)`. -/
def inBounds : List Nat → List Nat → Bool
  | v :: s, i :: idx => decide (i < v) && inBounds s idx
  | _, _ => true

/-- `Strides::flat_index`. -/
def flatIndex (shape idx : List Nat) : Option Nat :=
  if (strides shape).length = shape.length ∧ shape.length = idx.length then
    if inBounds shape idx then some (dot (strides shape) idx) else none
  else none

/-- Multi-index of a flat position (specification form). -/
def unflat : List Nat → Nat → List Nat
  | [], _ => []
  | _ :: s, i => (i / size s) :: unflat s (i % size s)

/-- The running-quotient loop of `Shape::index_from_flat_unchecked`:
    `n /= v; index[i] = flat / n; flat %= n`. -/
def unflatLoop : Nat → Nat → List Nat → List Nat
  | _, _, [] => []
  | n, f, v :: s => let n' := n / v; (f / n') :: unflatLoop n' (f % n') s

/-- `Shape::index_from_flat_unchecked`. -/
def indexFromFlat (shape : List Nat) (f : Nat) : List Nat :=
  unflatLoop (size shape) f shape

/-- The loop of `Shape::index_sum_from_flat_unchecked`. -/
def indexSumLoop : Nat → Nat → List Nat → Nat
  | _, _, [] => 0
  | n, f, v :: s => let n' := n / v; f / n' + indexSumLoop n' (f % n') s

/-- `Shape::index_sum_from_flat_unchecked`. -/
def indexSumFromFlat (shape : List Nat) (f : Nat) : Nat :=
  indexSumLoop (size shape) f shape

/-- Index-box membership as a proposition. -/
def InB : List Nat → List Nat → Prop
  | [], [] => True
  | v :: s, i :: idx => i < v ∧ InB s idx
  | _, _ => False

instance : (s idx : List Nat) → Decidable (InB s idx)
  | [], [] => isTrue trivial
  | v :: s, i :: idx =>
    match (inferInstance : Decidable (i < v)), instDecidableInB s idx with
    | isTrue h1, isTrue h2 => isTrue ⟨h1, h2⟩
    | isFalse h1, _ => isFalse (fun h => h1 h.1)
    | _, isFalse h2 => isFalse (fun h => h2 h.2)
  | [], _ :: _ => isFalse (fun h => h)
  | _ :: _, [] => isFalse (fun h => h)

/-- Mirror index: every `k_j` replaced by `n_j - k_j` where `n_j = v_j - 1`. -/
def mirror : List Nat → List Nat → List Nat
  | v :: s, i :: idx => (v - 1 - i) :: mirror s idx
  | _, _ => []

/-- Mixed-radix increment from the last axis; `none` on overflow. -/
def incr : List Nat → List Nat → Option (List Nat)
  | [], [] => none
  | v :: s, i :: idx =>
    match incr s idx with
    | some idx' => some (i :: idx')
    | none => if i + 1 < v then some ((i + 1) :: List.replicate s.length 0) else none
  | _, _ => none

/-- `RemovedAxis::iter` collected: the list without position `a`. -/
def removeAt {α} (l : List α) (a : Nat) : List α := l.take a ++ l.drop (a + 1)

/-- Insert `x` so that it sits at position `a`. -/
def insertAt {α} (l : List α) (a : Nat) (x : α) : List α := l.take a ++ x :: l.drop a

/-- `RemovedAxis::get`. -/
def removedGet (l : List Nat) (removed index : Nat) : Option Nat :=
  if index < removed then l[index]? else l[index + 1]?

/-- All multi-indices of a shape in row-major order. -/
def allIndices (shape : List Nat) : List (List Nat) :=
  (List.range (size shape)).map (unflat shape)

end Sfs
