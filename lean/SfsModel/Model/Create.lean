/-
L2 — code-shaped model of `sfs create`: genotype classification (`input/genotype/reader/vcf.rs`, after fix F1),
sample/population map (`input/sample.rs`, `sample/population.rs`, after fix F4), site reader builder validation
(`input/site/reader/builder.rs`), `site::Reader::read_site` with its mutable buffers and explicit `reset`
(`input/site/reader.rs`), and the runner loop (`cli/src/create/runner.rs`). Core Lean only.
-/
import SfsModel.Model.Spectrum
namespace Sfs

/-! ## genotype classification -/

inductive Skip where
  | missing | multiallelic
deriving Repr, DecidableEq

/-- `genotype::Result`. -/
inductive GtRes where
  | genotype (altCount : Nat)      -- `Genotype::{Zero,One,Two} as usize`
  | skipped (s : Skip)
  | ploidyError
deriving Repr, DecidableEq

/-- `From<Option<VcfGenotype>> for genotype::Result` on the allele list (`None` = the `.` allele). -/
def classify : List (Option Nat) → GtRes
  | [a, b] =>
    match a, b with
    | some a, some b =>
      if a ≤ 1 ∧ b ≤ 1 then
        (if a + b ≤ 2 then .genotype (a + b) else .skipped .multiallelic)   -- `try_from_raw`
      else .skipped .multiallelic
    | _, _ => .skipped .missing
  | [none] => .skipped .missing        -- a single missing allele: how a wholly missing genotype is spelled (`|.`, BCF `./.` padded)
  | _ => .ploidyError

/-- A GT field: `none` when the whole field is missing (`.` or absent). -/
def classifyField : Option (List (Option Nat)) → GtRes
  | none => .skipped .missing
  | some l => classify l

/-- Split a GT string at the phasing separators `/` and `|`. -/
def splitGT : List Char → List (List Char)
  | [] => [[]]
  | c :: cs =>
    match splitGT cs with
    | [] => [[c]]   -- unreachable
    | cur :: rest => if c = '/' ∨ c = '|' then [] :: cur :: rest else (c :: cur) :: rest

def isDigits (l : List Char) : Bool := !l.isEmpty && l.all Char.isDigit

def digitsToNat (l : List Char) : Nat := l.foldl (fun acc c => 10 * acc + (c.toNat - '0'.toNat)) 0

/-- `usize::from_str` (64-bit): an optional `+`, then at least one ASCII digit; the value must be below 2^64. -/
def parseAlleleIndex (l : List Char) : Option Nat :=
  let d := match l with
    | '+' :: r => r
    | _ => l
  if isDigits d ∧ digitsToNat d < 2 ^ 64 then some (digitsToNat d) else none

/-- One allele token (noodles `parse_position`): `.` is missing, otherwise `usize::from_str`; anything else invalid. -/
def parseAllele (l : List Char) : Option (Option Nat) :=
  if l = ['.'] then some none else (parseAlleleIndex l).map some

/-- A leading phasing separator in front of the first allele is allowed (VCF 4.4; noodles `parse_first_allele`). -/
def stripLeadSep : List Char → List Char
  | c :: r => if c = '/' ∨ c = '|' then r else c :: r
  | [] => []

/-- GT string → allele list (outer `none` = parse error, inner `none` = whole field `.`). The tokens are those of noodles'
    `genotype::parser::parse`: an optional leading separator, then allele positions separated by single separators. -/
def parseGT (s : List Char) : Option (Option (List (Option Nat))) :=
  if s = ['.'] then some none
  else (splitGT (stripLeadSep s)).mapM parseAllele |>.map some

/-! ## samples and populations -/

inductive Pop where
  | named (name : String)
  | unnamed
deriving Repr, DecidableEq

/-- `IndexMap::from_iter`: a later duplicate key overwrites the value and keeps the first position. -/
def indexMapInsert {κ ν} [DecidableEq κ] (m : List (κ × ν)) (k : κ) (v : ν) : List (κ × ν) :=
  if m.any (fun p => p.1 = k) then m.map (fun p => if p.1 = k then (k, v) else p) else m ++ [(k, v)]

def indexMapOfList {κ ν} [DecidableEq κ] (l : List (κ × ν)) : List (κ × ν) :=
  l.foldl (fun m p => indexMapInsert m p.1 p.2) []

/-- `population::Map::get_or_insert` over a sequence: distinct labels in order of first appearance. -/
def distinctInOrder {κ} [DecidableEq κ] (l : List κ) : List κ :=
  l.foldl (fun acc x => if acc.contains x then acc else acc ++ [x]) []

/-- `sample::Map::from_iter` (fixed): resolve duplicated samples first, then assign population ids. -/
def sampleMap (l : List (String × Pop)) : List (String × Nat) :=
  let resolved := indexMapOfList l
  let pops := distinctInOrder (resolved.map (·.2))
  resolved.map (fun p => (p.1, pops.idxOf p.2))

def numPops (m : List (String × Nat)) : Nat := (distinctInOrder (m.map (·.2))).length

/-- `sample::Map::shape`: `1 + 2 * population_sizes[id]` for `id` in `0..number_of_populations`. -/
def mapShape (m : List (String × Nat)) : List Nat :=
  (List.range (numPops m)).map (fun id => 1 + 2 * (m.filter (fun p => p.2 = id)).length)

def lookupPop (m : List (String × Nat)) (s : String) : Option Nat :=
  (m.find? (fun p => p.1 = s)).map (·.2)

def lookupSampleId (m : List (String × Nat)) (s : String) : Option Nat :=
  let i := m.findIdx (fun p => p.1 = s)
  if i < m.length then some i else none

/-- `sample::Map::from_all`: every column, unnamed population. -/
def sampleMapAll (cols : List String) : List (String × Nat) := sampleMap (cols.map (fun c => (c, Pop.unnamed)))

/-- `str::split_once(c)`: split at the first occurrence of `c`. -/
def splitOnce (c : Char) : List Char → Option (List Char × List Char)
  | [] => none
  | x :: xs => if x = c then some ([], xs) else (splitOnce c xs).map (fun p => (x :: p.1, p.2))

/-- One `--samples` item `SAMPLE[=POPULATION]`: `split_once('=')`. -/
def parseSampleArg (s : List Char) : String × Pop :=
  match splitOnce '=' s with
  | some (k, v) => (String.ofList k, .named (String.ofList v))
  | none => (String.ofList s, .unnamed)

/-- One `--samples-file` line `SAMPLE[\tPOPULATION]`: `split_once('\t')`. -/
def parseSampleLine (s : List Char) : String × Pop :=
  match splitOnce '\t' s with
  | some (k, v) => (String.ofList k, .named (String.ofList v))
  | none => (String.ofList s, .unnamed)

/-- Split at every occurrence of `c` (clap's value delimiter `,`; `str::lines` for `\n` modulo the final newline). -/
def splitAll (c : Char) : List Char → List (List Char)
  | [] => [[]]
  | x :: xs =>
    match splitAll c xs with
    | [] => [[x]]
    | cur :: rest => if x = c then [] :: cur :: rest else (x :: cur) :: rest

/-- `--samples a=X,b,c=Y`. -/
def parseSamplesArg (s : List Char) : List (String × Pop) := (splitAll ',' s).map parseSampleArg

/-- `str::lines` ends a line at `\n` or `\r\n`: one carriage return in front of the line feed is dropped. -/
def stripCr (l : List Char) : List Char := if l.getLast? = some '\r' then l.dropLast else l

/-- `--samples-file` content (`str::lines`: a trailing newline does not produce an empty last line; a line that was ended by
    `\r\n` loses the carriage return as well — a last line without line feed keeps a trailing `\r`). -/
def parseSamplesFile (s : List Char) : List (String × Pop) :=
  let ls := splitAll '\n' s
  let (ended, last) := (ls.dropLast, ls.getLast?)
  let ls := ended.map stripCr ++ (match last with
    | some [] => []
    | some l => [l]
    | none => [])
  ls.map parseSampleLine

/-! ## site reader builder -/

inductive BuildErr where
  | emptySamplesMap
  | unknownSample (s : String)
  | projection (e : ProjErr)
deriving Repr, DecidableEq

structure SiteCfg where
  map : List (String × Nat)
  cols : List String
  projectTo : Option (List Nat)     -- counts (shape - 1) as in `PartialProjection::project_to`
deriving Repr

/-- `site::reader::Builder::build`: `samples = none` means all columns; `project` is the target *shape*. -/
def buildSite (samples : Option (List (String × Pop))) (project : Option (List Nat)) (cols : List String)
    : Except BuildErr SiteCfg :=
  let map := match samples with
    | some l => sampleMap l
    | none => sampleMapAll cols
  if map.isEmpty then .error .emptySamplesMap
  else match map.find? (fun p => !cols.contains p.1) with
    | some p => .error (.unknownSample p.1)
    | none =>
      match project with
      | none => .ok ⟨map, cols, none⟩
      | some toShape =>
        let fromShape := mapShape map
        if fromShape.length ≠ toShape.length then
          .error (.projection (.unequalDimensions fromShape.length toShape.length))
        else match firstSmaller fromShape toShape 0 with
          | some (d, f, t) => .error (.projection (.invalidProjection d f t))
          | none => match countOfShape toShape with
            | some pt => .ok ⟨map, cols, some pt⟩
            | none => .error (.projection .zero)

/-- Shape of the output spectrum (`create_zero_scs`). -/
def SiteCfg.outShape (c : SiteCfg) : List Nat :=
  match c.projectTo with
  | some pt => pt.map (· + 1)
  | none => mapShape c.map

/-! ## `read_site` -/

structure SiteSt where
  counts : List Nat
  totals : List Nat
  skipped : List (Nat × Skip)
deriving Repr, DecidableEq

def SiteSt.fresh (npop : Nat) : SiteSt := ⟨List.replicate npop 0, List.replicate npop 0, []⟩

inductive Site where
  | standard (counts : List Nat)
  | projected (totals counts : List Nat)
  | insufficient
deriving Repr, DecidableEq

def bump (l : List Nat) (i by_ : Nat) : List Nat := l.set i (l.getD i 0 + by_)

/-- The column loop of `read_site`: `none` = a ploidy error in a selected column (early return). -/
def tally (map : List (String × Nat)) : List String → List GtRes → SiteSt → Option SiteSt
  | c :: cs, g :: gs, st =>
    match lookupPop map c with
    | none => tally map cs gs st
    | some pid =>
      match g with
      | .genotype k => tally map cs gs { st with counts := bump st.counts pid k, totals := bump st.totals pid 2 }
      | .skipped s => tally map cs gs { st with skipped := st.skipped ++ [((lookupSampleId map c).getD 0, s)] }
      | .ploidyError => none
  | _, _, st => some st

/-- `Reader::read_site` on one record: explicit `reset`, the tally, then the classification. -/
def readSite (cfg : SiteCfg) (st : SiteSt) (gts : List GtRes) : Option Site × SiteSt :=
  let st0 : SiteSt := ⟨st.counts.map (fun _ => 0), st.totals.map (fun _ => 0), []⟩      -- reset()
  match tally cfg.map cfg.cols gts st0 with
  | none => (none, st0)
  | some st1 =>
    let site := match cfg.projectTo with
      | some pt =>
        let exact := (List.zipWith (fun t m => decide (t = m)) st1.totals pt).all id
        let projectable := (List.zipWith (fun t m => decide (t ≥ m)) st1.totals pt).all id
        if exact then Site.standard st1.counts
        else if projectable then Site.projected st1.totals st1.counts
        else Site.insufficient
      | none => if st1.skipped.isEmpty then Site.standard st1.counts else Site.insufficient
    (some site, st1)

/-! ## runner -/

/-- What the genotype reader hands to the site reader for one record. -/
inductive Rec where
  | gts (contig : String) (pos : Nat) (l : List GtRes)
  | corrupt (contig : String) (pos : Nat)          -- `ReadStatus::Error` from the VCF/BCF parser
deriving Repr, DecidableEq

inductive RunErr where
  | genotypeError (contig : String) (pos : Nat)    -- "encountered genotype error at site 'contig:pos'"
  | strict (contig : String) (pos : Nat)           -- strict mode: first skipped site
deriving Repr, DecidableEq

structure RunSt (α : Type) where
  scs : List α
  sites : Nat
  skipped : Nat
  site : SiteSt

/-- `scs[&counts] += 1.0`. -/
def addOne {α} [Add α] [OfNat α 0] [OfNat α 1] (shape : List Nat) (scs : List α) (counts : List Nat) : List α :=
  match flatIndex shape counts with
  | some f => scs.set f (scs.getD f 0 + 1)
  | none => scs     -- would be the `expect` panic; unreachable by `standard_in_bounds`

/-- One iteration of `Runner::run`. -/
def runStep {α} [Add α] [Mul α] [Div α] [NatCast α] [OfNat α 0] [OfNat α 1]
    (cfg : SiteCfg) (strict : Bool) (st : RunSt α) (r : Rec) : Except RunErr (RunSt α) :=
  match r with
  | .corrupt c p => .error (.genotypeError c p)
  | .gts c p l =>
    match readSite cfg st.site l with
    | (none, _) => .error (.genotypeError c p)
    | (some (.standard counts), s') =>
      .ok { scs := addOne cfg.outShape st.scs counts, sites := st.sites + 1, skipped := st.skipped, site := s' }
    | (some (.projected totals counts), s') =>
      .ok { scs := addProjected st.scs (projectIter totals counts (cfg.projectTo.getD [])) 1,
            sites := st.sites + 1, skipped := st.skipped, site := s' }
    | (some .insufficient, s') =>
      if strict then .error (.strict c p)
      else .ok { scs := st.scs, sites := st.sites + 1, skipped := st.skipped + 1, site := s' }

def runLoop {α} [Add α] [Mul α] [Div α] [NatCast α] [OfNat α 0] [OfNat α 1]
    (cfg : SiteCfg) (strict : Bool) : RunSt α → List Rec → Except RunErr (RunSt α)
  | st, [] => .ok st
  | st, r :: rs => match runStep cfg strict st r with
    | .ok st' => runLoop cfg strict st' rs
    | .error e => .error e

/-- `Runner::run`: spectrum, number of sites read, number skipped. -/
def createRun {α} [Add α] [Mul α] [Div α] [NatCast α] [OfNat α 0] [OfNat α 1]
    (cfg : SiteCfg) (strict : Bool) (recs : List Rec) : Except RunErr (List α × Nat × Nat) :=
  let npop := numPops cfg.map
  match runLoop cfg strict ⟨List.replicate (size cfg.outShape) 0, 0, 0, SiteSt.fresh npop⟩ recs with
  | .ok st => .ok (st.scs, st.sites, st.skipped)
  | .error e => .error e

end Sfs

/- Rust functions mirrored in this file beyond those cited above (read by tools/trace_matrix.py):
   cli/src/create.rs: parse_sample_population (parseSampleArg); cli/src/create/runner.rs: handle_skipped_site (runStep, insufficient branch: strict error or skipped + 1); core/src/input/sample.rs: from_path, from_reader (parseSamplesFile on the file's content), get_population_id (lookupPop), get_sample_id (lookupSampleId), get_sample; core/src/input/sample/population.rs: get, insert (distinctInOrder / idxOf); core/src/spectrum/count.rs: from_zeros, set_zero (SiteSt.fresh, the reset in readSite); core/src/input/genotype/reader.rs: read_genotypes (the trait method: one `Rec` per call) -/
