/-
Extended exact scalars for the driver: a rational, NaN or ±infinity, with IEEE-754-like propagation
rules, so that the generic model can be executed on inputs containing special values; and the exact
decoding of binary64 bit patterns. Signed zeros are not distinguished (`-0.0` decodes to `0`); a finite
value divided by zero is taken to be divided by `+0`. Core Lean only.
-/
namespace Sfs

inductive XR where
  | fin (q : Rat)
  | nan
  | inf (neg : Bool)
deriving Repr, DecidableEq, Inhabited

namespace XR

def add : XR → XR → XR
  | fin a, fin b => fin (a + b)
  | nan, _ | _, nan => nan
  | inf a, inf b => if a = b then inf a else nan
  | inf a, fin _ => inf a
  | fin _, inf b => inf b

def neg : XR → XR
  | fin a => fin (-a)
  | nan => nan
  | inf s => inf (!s)

def mul : XR → XR → XR
  | fin a, fin b => fin (a * b)
  | nan, _ | _, nan => nan
  | inf a, inf b => inf (a != b)
  | inf a, fin q => if q = 0 then nan else inf (a != decide (q < 0))
  | fin q, inf b => if q = 0 then nan else inf (b != decide (q < 0))

def div : XR → XR → XR
  | fin a, fin b => if b = 0 then (if a = 0 then nan else inf (decide (a < 0))) else fin (a / b)
  | nan, _ | _, nan => nan
  | inf _, inf _ => nan
  | inf a, fin q => inf (a != decide (q < 0))
  | fin _, inf _ => fin 0

instance : Add XR := ⟨add⟩
instance : Mul XR := ⟨mul⟩
instance : Div XR := ⟨div⟩
instance : Neg XR := ⟨neg⟩
instance : Sub XR := ⟨fun a b => add a (neg b)⟩
instance : OfNat XR n := ⟨fin (n : Rat)⟩
instance : NatCast XR := ⟨fun n => fin (n : Rat)⟩

def isFinite : XR → Bool
  | fin _ => true
  | _ => false

def toRat? : XR → Option Rat
  | fin q => some q
  | _ => none

def render : XR → String
  | fin q => toString q
  | nan => "NaN"
  | inf false => "inf"
  | inf true => "-inf"

end XR

/-- Exact value of an IEEE-754 binary64 bit pattern. -/
def f64OfBits (b : Nat) : XR :=
  let sign : Bool := b / 2 ^ 63 % 2 == 1
  let e : Nat := b / 2 ^ 52 % 2 ^ 11
  let m : Nat := b % 2 ^ 52
  if e == 2047 then (if m == 0 then .inf sign else .nan)
  else
    let num : Nat := if e == 0 then m else if e ≥ 1075 then (2 ^ 52 + m) * 2 ^ (e - 1075) else 2 ^ 52 + m
    let den : Nat := if e == 0 then 2 ^ 1074 else if e ≥ 1075 then 1 else 2 ^ (1075 - e)
    let mag : Rat := (num : Rat) / (den : Rat)
    .fin (if sign then -mag else mag)

def absRat (q : Rat) : Rat := if q < 0 then -q else q

/-- Numeric comparison rule (DESIGN §4.4): `|v - q| ≤ 2^-30 · (|q| + floor)`, where `floor` is the scale of the
    defining sum (sum of absolute values of its terms) supplied by the model. -/
def closeTo (v q floor : Rat) : Bool :=
  absRat (v - q) ≤ (absRat q + floor) / ((2 ^ 30 : Nat) : Rat)

/-- Compare an implementation value with the model value: exact on the special classes,
    exact (`tol = none`) or within the bound (`tol = some floor`) on finite values. -/
def XR.agrees (impl model : XR) (tol : Option Rat) : Bool :=
  match impl, model with
  | .fin a, .fin b => match tol with
    | none => a == b
    | some fl => closeTo a b fl
  | .nan, .nan => true
  | .inf a, .inf b => a == b
  | _, _ => false

def sumAbs (l : List XR) : Rat := l.foldl (fun acc x => match x with | .fin q => acc + absRat q | _ => acc) 0

end Sfs
