/-
L2 — the command-line glue around the core: `sfs create` (`cli/src/create.rs`): build the site reader, run, and only
then write the spectrum as text (precision 0 unless projecting); the stderr summary of `Runner::summarize_skipped`.
Exit status: 0 on success, 1 on any diagnosed error. Values are rendered through the binary64 nearest to the exact
model value (the implementation accumulates in binary64; the driver compares numerically). Core Lean only.
-/
import SfsModel.Model.Create
import SfsModel.Model.Text
namespace Sfs

structure CreateArgs where
  samples : Option (List (String × Pop)) := none
  projectShape : Option (List Nat) := none        -- `--project-shape`, or `-p` after `individualsToShape`
  precision : Nat := 6
  strict : Bool := false
deriving Repr

structure CreateOut where
  code : Nat
  stdout : List Char
  summary : Option (Nat × Nat)      -- "Skipped {skipped}/{sites} sites …"
  err : Option RunErr
  buildErr : Option BuildErr
deriving Repr

/-- `Create::run`. -/
def createCli (a : CreateArgs) (cols : List String) (recs : List Rec) : CreateOut :=
  let precision := if a.projectShape.isSome then a.precision else 0
  match buildSite a.samples a.projectShape cols with
  | .error e => ⟨1, [], none, none, some e⟩
  | .ok cfg =>
    match createRun (α := Rat) cfg a.strict recs with
    | .error e => ⟨1, [], none, some e, none⟩
    | .ok (scs, sites, skipped) =>
      ⟨0, writeText cfg.outShape (scs.map f64BitsOfRat) precision,
       if skipped > 0 then some (skipped, sites) else none, none, none⟩

end Sfs
