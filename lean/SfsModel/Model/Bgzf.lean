/-
L2 — gzip members (RFC 1952) and BGZF framing (SAM specification §4.1) as the implementation consumes them:
* `gunzipPrefix` is flate2's `MultiGzDecoder::read_exact` as used by `Format::detect`: members are decoded one after the
  other until the requested number of bytes is available;
* `bgzfDecode` is the block reader of noodles-bgzf: 18-byte header whose `BC` extra subfield gives the block size, raw
  DEFLATE payload, CRC-32 and ISIZE trailer; the decoded stream is the concatenation of the block payloads, whatever the
  partition into blocks (empty blocks included); a clean end of input between blocks ends the stream.
Both are third-party code in the implementation; the model makes the container codecs of C12 concrete. Core Lean only.
-/
import SfsModel.Model.Inflate
namespace Sfs

/-- CRC-32 (IEEE 802.3, reflected, polynomial 0xEDB88320), bit by bit. -/
def crcStep (c : Nat) : Nat := if c % 2 = 1 then (c / 2) ^^^ 0xEDB88320 else c / 2

def crcByte (c b : Nat) : Nat :=
  crcStep (crcStep (crcStep (crcStep (crcStep (crcStep (crcStep (crcStep (c ^^^ b))))))))

def crc32 (data : List Nat) : Nat := (data.foldl crcByte 0xFFFFFFFF) ^^^ 0xFFFFFFFF

def le16 (b0 b1 : Nat) : Nat := b0 + 256 * b1
def le32 (b0 b1 b2 b3 : Nat) : Nat := b0 + 256 * b1 + 65536 * b2 + 16777216 * b3
def toLe16 (n : Nat) : List Nat := [n % 256, n / 256 % 256]
def toLe32 (n : Nat) : List Nat := [n % 256, n / 256 % 256, n / 65536 % 256, n / 16777216 % 256]

/-- Drop a zero-terminated field (gzip FNAME / FCOMMENT). -/
def dropCString : List Nat → Option (List Nat)
  | [] => none
  | b :: rest => if b = 0 then some rest else dropCString rest

/-- One gzip member at the head of `bytes`: its payload and the bytes after its trailer. CRC-32 and ISIZE are checked. -/
def gunzipMember (bytes : List Nat) : Option (List Nat × List Nat) :=
  match bytes with
  | 0x1f :: 0x8b :: 8 :: flg :: _ :: _ :: _ :: _ :: _ :: _ :: rest =>
    let afterExtra : Option (List Nat) :=
      if flg / 4 % 2 = 1 then
        match rest with
        | x0 :: x1 :: r => if r.length < le16 x0 x1 then none else some (r.drop (le16 x0 x1))
        | _ => none
      else some rest
    match afterExtra with
    | none => none
    | some r1 =>
      match (if flg / 8 % 2 = 1 then dropCString r1 else some r1) with
      | none => none
      | some r2 =>
        match (if flg / 16 % 2 = 1 then dropCString r2 else some r2) with
        | none => none
        | some r3 =>
          match (if flg / 2 % 2 = 1 then (if r3.length < 2 then none else some (r3.drop 2)) else some r3) with
          | none => none
          | some r4 =>
            match inflate r4 with
            | none => none
            | some (data, tail) =>
              match tail with
              | c0 :: c1 :: c2 :: c3 :: s0 :: s1 :: s2 :: s3 :: after =>
                if le32 c0 c1 c2 c3 = crc32 data ∧ le32 s0 s1 s2 s3 = data.length % 4294967296 then some (data, after)
                else none
              | _ => none
  | _ => none

/-- `MultiGzDecoder::read_exact(n)`: decode members until `n` bytes are available (`none`: the stream ends or is damaged
    before that). Fuel bounds the number of members looked at. -/
def gunzipPrefix (n : Nat) : Nat → List Nat → List Nat → Option (List Nat)
  | 0, _, _ => none
  | fuel + 1, bytes, acc =>
    if acc.length ≥ n then some (acc.take n) else
    match gunzipMember bytes with
    | none => none
    | some (data, rest) =>
      if (acc ++ data).length ≥ n then some ((acc ++ data).take n) else gunzipPrefix n fuel rest (acc ++ data)

/-- `Format::detect` under `CompressionMethod::Bgzf`: the first three decompressed bytes of the detection prefix. -/
def inflate3 (pfx : List Nat) : Option (List Nat) := gunzipPrefix 3 (pfx.length + 1) pfx []

/-- One BGZF block at the head of `bytes` (noodles-bgzf `read_frame` + `parse_block`): fixed 18-byte header with
    `XLEN = 6` and the `BC` subfield, `BSIZE + 1` = total block length. -/
def bgzfBlock (bytes : List Nat) : Option (List Nat × List Nat) :=
  match bytes with
  | 0x1f :: 0x8b :: 8 :: 4 :: _ :: _ :: _ :: _ :: _ :: _ :: 6 :: 0 :: 66 :: 67 :: 2 :: 0 :: b0 :: b1 :: rest =>
    let total := le16 b0 b1 + 1
    if total < 26 ∨ rest.length + 18 < total then none else
    let cdata := rest.take (total - 26)
    match (rest.drop (total - 26)).take 8 with
    | [c0, c1, c2, c3, s0, s1, s2, s3] =>
      match inflate cdata with
      | none => none
      | some (data, _) =>
        if le32 c0 c1 c2 c3 = crc32 data ∧ le32 s0 s1 s2 s3 = data.length then some (data, rest.drop (total - 18))
        else none
    | _ => none
  | _ => none

/-- The decoded BGZF stream: block payloads in order; a clean end of input between blocks ends it. -/
def bgzfDecode : Nat → List Nat → Option (List Nat)
  | 0, _ => none
  | fuel + 1, bytes =>
    if bytes.isEmpty then some [] else
    match bgzfBlock bytes with
    | none => none
    | some (data, rest) =>
      match bgzfDecode fuel rest with
      | none => none
      | some more => some (data ++ more)

def bgzfDecodeAll (bytes : List Nat) : Option (List Nat) := bgzfDecode (bytes.length + 1) bytes

/-- A BGZF block around a given raw DEFLATE encoding `cdata` of `payload`. -/
def bgzfFrame (cdata payload : List Nat) : List Nat :=
  [0x1f, 0x8b, 8, 4, 0, 0, 0, 0, 0, 0xff, 6, 0, 66, 67, 2, 0] ++ toLe16 (cdata.length + 25) ++ cdata ++
    toLe32 (crc32 payload) ++ toLe32 payload.length

/-- BGZF frames around arbitrary DEFLATE data (e.g. what a real compressor produced): (cdata, payload) pairs. -/
def bgzfFrames (blocks : List (List Nat × List Nat)) : List Nat := blocks.flatMap (fun b => bgzfFrame b.1 b.2)

/-- A BGZF encoder with stored DEFLATE blocks: one block per chunk of the given partition (chunks ≤ 65 280 bytes, the
    BGZF payload limit), then an empty end-of-file block. -/
def bgzfEncodeStored (chunks : List (List Nat)) : List Nat :=
  (chunks.flatMap (fun c => bgzfFrame (deflateStored 0 c) c)) ++ bgzfFrame (deflateStored 0 []) []

end Sfs
