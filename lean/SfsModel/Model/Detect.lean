/-
L2 — input container detection of `genotype::reader::Builder::build_from_reader` (after fix F15: detection runs on a
read-ahead prefix of up to 64 KiB, which is then chained back in front of the reader), and the factorisation of
`sfs create` through the decoded call set. The container codecs (BGZF/inflate, VCF and BCF parsing: noodles, flate2)
are parameters. Core Lean only.
-/
import SfsModel.Model.Cli
import SfsModel.Model.IoModel
namespace Sfs

def gzipMagic : List Nat := [0x1f, 0x8b]
def bcfMagic : List Nat := [66, 67, 70]     -- "BCF"

inductive Container where
  | vcf | vcfGz | bcfGz | bcfRaw
deriving Repr, DecidableEq

/-- `(r.by_ref().take(65536)).read_to_end(&mut prefix)`: the prefix is the first 64 KiB whatever the chunk schedule. -/
def readPrefix (r : Rd) : Except IoErr (List Nat × Rd) :=
  match r.readToEnd (r.data.length + 1) with   -- read_to_end of the `Take` adaptor; truncated below
  | .ok (bytes, r') => .ok (bytes.take 65536, r')
  | .error e => .error e

/-- `CompressionMethod::detect` + `Format::detect` on the prefix; `inflate3` yields the first three decompressed bytes
    of a gzip member (flate2's `MultiGzDecoder::read_exact`), `none` if that fails. -/
def detectContainer (inflate3 : List Nat → Option (List Nat)) (pfx : List Nat) : Except IoErr Container :=
  if gzipMagic.isPrefixOf pfx then
    match inflate3 pfx with
    | some b => if b = bcfMagic then .ok .bcfGz else .ok .vcfGz
    | none => .error .io
  else if bcfMagic.isPrefixOf pfx then .ok .bcfRaw else .ok .vcf

/-- The decoded call set: header sample columns and the per-record genotype results. -/
abbrev CallSet := List String × List Rec

/-- `sfs create` from input bytes: detect, decode with the codec of the detected container, then the pure pipeline. -/
def createFromBytes (inflate3 : List Nat → Option (List Nat)) (decode : Container → List Nat → Option CallSet)
    (a : CreateArgs) (bytes : List Nat) : Option CreateOut :=
  match detectContainer inflate3 (bytes.take 65536) with
  | .error _ => none
  | .ok c => (decode c bytes).map (fun cs => createCli a cs.1 cs.2)

end Sfs
