/-
L2 — input container detection of `genotype::reader::Builder::build_from_reader` (after fix F15: detection runs on a
read-ahead prefix of up to 64 KiB, which is then chained back in front of the reader), and the factorisation of
`sfs create` through the decoded call set. The container codecs (BGZF/inflate, VCF and BCF parsing: noodles, flate2)
are parameters. Core Lean only.
-/
import SfsModel.Model.Cli
import SfsModel.Model.IoModel
namespace Sfs

def gzipMagic : List Nat := [0x1f, 0x8b]
def bcfMagic : List Nat := [66, 67, 70]     -- "BCF"

inductive Container where
  | vcf | vcfGz | bcfGz | bcfRaw
deriving Repr, DecidableEq

/-- `(&mut reader).take(limit).read_to_end(&mut prefix)`: reads until `limit` bytes have been taken or the stream ends;
    `fuel ≥ limit` (every round takes at least one byte). -/
def Rd.readUpTo : Nat → Nat → Rd → Except IoErr (List Nat × Rd)
  | 0, _, r => .ok ([], r)
  | _, 0, r => .ok ([], r)
  | fuel + 1, limit + 1, r =>
    match r.fillBuf with
    | .error e => .error e
    | .ok (buf, r') =>
      if buf.isEmpty then .ok ([], r')
      else
        let k := min buf.length (limit + 1)
        match Rd.readUpTo fuel (limit + 1 - k) (r'.consume k) with
        | .ok (more, r'') => .ok (buf.take k ++ more, r'')
        | .error e => .error e

/-- The detection prefix of `build_from_reader` (fix 1c0411c): up to 64 KiB read ahead, whatever the chunking; the
    reader is left positioned right after the prefix. -/
def readPrefix (r : Rd) : Except IoErr (List Nat × Rd) := r.readUpTo 65536 65536

/-- `CompressionMethod::detect` + `Format::detect` on the prefix; `inflate3` yields the first three decompressed bytes
    of a gzip member (flate2's `MultiGzDecoder::read_exact`), `none` if that fails. -/
def detectContainer (inflate3 : List Nat → Option (List Nat)) (pfx : List Nat) : Except IoErr Container :=
  if gzipMagic.isPrefixOf pfx then
    match inflate3 pfx with
    | some b => if b = bcfMagic then .ok .bcfGz else .ok .vcfGz
    | none => .error .io
  else if bcfMagic.isPrefixOf pfx then .ok .bcfRaw else .ok .vcf

/-- The decoded call set: header sample columns and the per-record genotype results. -/
abbrev CallSet := List String × List Rec

/-- `sfs create` from input bytes: detect, decode with the codec of the detected container, then the pure pipeline. -/
def createFromBytes (inflate3 : List Nat → Option (List Nat)) (decode : Container → List Nat → Option CallSet)
    (a : CreateArgs) (bytes : List Nat) : Option CreateOut :=
  match detectContainer inflate3 (bytes.take 65536) with
  | .error _ => none
  | .ok c => (decode c bytes).map (fun cs => createCli a cs.1 cs.2)

/-- `sfs create` over a chunk-scheduled stream: read the detection prefix, detect on it, then hand
    `Cursor::new(prefix).chain(reader)` — i.e. prefix followed by everything the reader still delivers — to the decoder of
    the detected container. -/
def createFromRd (inflate3 : List Nat → Option (List Nat)) (decode : Container → List Nat → Option CallSet)
    (a : CreateArgs) (r : Rd) : Option CreateOut :=
  match readPrefix r with
  | .error _ => none
  | .ok (pfx, r') =>
    match detectContainer inflate3 pfx with
    | .error _ => none
    | .ok c =>
      match r'.readToEnd (r'.data.length + 1) with
      | .error _ => none
      | .ok (rest, _) => (decode c (pfx ++ rest)).map (fun cs => createCli a cs.1 cs.2)

end Sfs
