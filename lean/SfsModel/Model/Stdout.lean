/-
L2 — standard output as the spectrum writers see it: `io::stdout()` is a `LineWriter` (a `BufWriter` of 1024 bytes that
hands complete lines on at once), so what a command has "written" is not what has reached the descriptor until the buffer is
flushed. `write_to_stdout` (core/src/spectrum/io/write.rs, after fix 9e7cf6d) writes the spectrum piece by piece
(`write_all` per piece) and then flushes; before the fix the flush was left to process exit, where its error is ignored
(defect F35). Transcribed from std: `LineWriterShim::write_all`, `BufWriter::write_all` / `write_all_cold` / `flush_buf`.
Core Lean only.
-/
import SfsModel.Model.IoModel
namespace Sfs

/-- `LineWriter<StdoutRaw>`: the descriptor behind it (`inner`) and the bytes still buffered. -/
structure LineWr where
  inner : Wr
  buf : List Nat := []
deriving Repr

/-- capacity of stdout's `LineWriter` -/
def LineWr.cap : Nat := 1024

/-- `BufWriter::flush_buf`: hand the buffered bytes to the descriptor (`write_all` semantics: short writes are retried). -/
def LineWr.flushBuf (l : LineWr) : Except IoErr LineWr :=
  if l.buf.isEmpty then .ok l else
  match l.inner.writeAllOf l.buf with
  | .ok w => .ok { inner := w, buf := [] }
  | .error e => .error e

/-- `BufWriter::write_all`: flush first when the bytes do not fit the spare capacity; bytes that are at least as long as the
    whole buffer go to the descriptor directly, shorter ones are buffered. -/
def LineWr.bufWriteAll (l : LineWr) (b : List Nat) : Except IoErr LineWr :=
  match (if l.buf.length + b.length > LineWr.cap then l.flushBuf else .ok l) with
  | .error e => .error e
  | .ok l =>
    if b.length ≥ LineWr.cap then
      match l.inner.writeAllOf b with
      | .ok w => .ok { l with inner := w }
      | .error e => .error e
    else .ok { l with buf := l.buf ++ b }

/-- split after the last line feed: `(lines, tail)`, `none` when there is no line feed -/
def splitLastNewline (b : List Nat) : Option (List Nat × List Nat) :=
  let tail := (b.reverse.takeWhile (· ≠ 10)).reverse
  if tail.length = b.length then none else some (b.take (b.length - tail.length), tail)

/-- `LineWriterShim::write_all`: without a line feed the bytes are buffered (after flushing a completed line left in the buffer);
    with one, everything up to the last line feed is handed on (directly when nothing is buffered, else through the buffer, which
    is then flushed) and the rest is buffered. -/
def LineWr.writeAll (l : LineWr) (b : List Nat) : Except IoErr LineWr :=
  match splitLastNewline b with
  | none =>
    match (if l.buf.getLast? = some 10 then l.flushBuf else .ok l) with
    | .error e => .error e
    | .ok l => l.bufWriteAll b
  | some (lines, tail) =>
    let handed : Except IoErr LineWr :=
      if l.buf.isEmpty then
        match l.inner.writeAllOf lines with
        | .ok w => .ok { l with inner := w }
        | .error e => .error e
      else
        match l.bufWriteAll lines with
        | .ok l' => l'.flushBuf
        | .error e => .error e
    match handed with
    | .error e => .error e
    | .ok l' => l'.bufWriteAll tail

/-- a sequence of `write_all` calls on stdout -/
def LineWr.writePieces : List (List Nat) → LineWr → Except IoErr LineWr
  | [], l => .ok l
  | p :: ps, l => match l.writeAll p with
    | .ok l' => LineWr.writePieces ps l'
    | .error e => .error e

/-- The pieces `write_array` hands to its writer one `write_all` at a time (`none`: the header does not fit version 1.0 —
    the writer fails after magic and version). -/
def npyPieces (shape : List Nat) (bits : List Nat) : Option (List (List Nat)) :=
  let dict := npyDict shape
  let len := 6 + 2 + 2 + dict.length
  let padLen := 64 - len % 64
  let headerLen := dict.length + padLen
  if headerLen < 65536 then
    some ([npyMagic, [1, 0], leBytes 2 headerLen, asciiBytes dict, List.replicate (padLen - 1) 32 ++ [10]] ++ bits.map (leBytes 8))
  else none

/-- … and those of `write_spectrum` (text). -/
def textPieces (shape : List Nat) (bits : List Nat) (p : Nat) : List (List Nat) :=
  match bits with
  | [] => [asciiBytes (textHeader shape), [10], [10]]
  | b :: rest => [asciiBytes (textHeader shape), [10], asciiBytes (rest.foldl (fun s x => s ++ ' ' :: fmtFixed x p) (fmtFixed b p)), [10]]

/-- `write_to_stdout` as it is now: the pieces through the line writer, then `flush`; the result is what reached the descriptor,
    or the error. -/
def stdoutWrite (pieces : List (List Nat)) (w : Wr) : Except IoErr Wr :=
  match LineWr.writePieces pieces { inner := w } with
  | .error e => .error e
  | .ok l => match l.flushBuf with
    | .ok l' => .ok l'.inner
    | .error e => .error e

/-- `write_to_stdout` before fix 9e7cf6d: no flush; what is still buffered is written when the process exits, where a failure
    is dropped — the command has already decided to exit with status 0. Returns what reached the descriptor. -/
def stdoutWriteUnflushed (pieces : List (List Nat)) (w : Wr) : Except IoErr Wr :=
  match LineWr.writePieces pieces { inner := w } with
  | .error e => .error e
  | .ok l => match l.flushBuf with
    | .ok l' => .ok l'.inner
    | .error _ => .ok l.inner

end Sfs
