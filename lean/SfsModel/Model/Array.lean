/-
L2 — code-shaped model of `core/src/array.rs`, `array/iter.rs`, `array/view.rs`, `array/view/iter.rs`
(as of the `fix:` commits F11–F14). Iterators are `state → (item?, state)` functions.
-/
import SfsModel.Model.Index
namespace Sfs

/-- the `checked_mul` step of `Shape::checked_elements` over `v.max(1)`. -/
def nzStep (acc : Option Nat) (v : Nat) : Option Nat :=
  match acc with
  | some n => if n * max v 1 < 2 ^ 64 then some (n * max v 1) else none
  | none => none

/-- `Shape::checked_elements` (after fixes 3fdf991 and 004eece): the product of the *non-zero* lengths must fit
    `usize` (2^64 on the 64-bit target) — strides and partial products range over sub-lists of the axes, so a
    zero-length axis must not mask an overflow — and the result is then the plain product. -/
def checkedSize (s : List Nat) : Option Nat :=
  match s.foldl nzStep (some 1) with
  | some _ => some (size s)
  | none => none

structure Arr (α : Type) where
  data : List α
  shape : List Nat
deriving Repr

/-- `Array::new`: the length check (on the checked product). -/
def Arr.new? {α} (data : List α) (shape : List Nat) : Option (Arr α) :=
  if checkedSize shape = some data.length then some ⟨data, shape⟩ else none

/-- `Array::get`. -/
def Arr.get {α} (a : Arr α) (idx : List Nat) : Option α :=
  if idx.length = a.shape.length then
    match flatIndex a.shape idx with
    | some f => a.data[f]?
    | none => none
  else none

/-- `View`: `data` is the slice starting at the view's first element. -/
structure View (α : Type) where
  data : List α
  shape : List Nat
  strides : List Nat
deriving Repr

/-- `Array::get_axis` (fixed: `axis >= dimensions`). -/
def Arr.getAxis {α} (a : Arr α) (axis index : Nat) : Option (View α) :=
  if axis ≥ a.shape.length ∨ index ≥ a.shape.getD axis 0 then none
  else
    let offset := index * (strides a.shape).getD axis 0
    some ⟨a.data.drop offset, removeAt a.shape axis, removeAt (strides a.shape) axis⟩

/-- State of `view::Iter`; `coordsR` is kept last axis first so that `axis - 1` is structural. -/
structure ViewIter where
  coordsR : List Nat
  offset : Nat
  index : Nat
deriving Repr, DecidableEq

def ViewIter.init {α} (v : View α) : ViewIter := ⟨List.replicate v.shape.length 0, 0, 0⟩

/-- `impl_next_rec` after the first element, lists last-axis-first: increment the current axis; on
    overflow reset it, subtract the backstride `stride * (len - 1)` and carry to the next axis. -/
def stepR : (shapeR stridesR coordsR : List Nat) → (offset : Nat) → Option (List Nat × Nat)
  | v :: sh, st :: sts, c :: cs, off =>
      if c + 1 < v then some ((c + 1) :: cs, off + st)
      else match stepR sh sts cs (off - st * (v - 1)) with
        | some (cs', off') => some (0 :: cs', off')
        | none => none
  | _, _, _, _ => none

/-- `Iter::next` (fixed: fused, zero remaining axes handled). -/
def View.next {α} (v : View α) (it : ViewIter) : Option α × ViewIter :=
  if it.index ≥ size v.shape then (none, it)
  else if it.index = 0 then (v.data.head?, { it with index := 1 })
  else match stepR v.shape.reverse v.strides.reverse it.coordsR it.offset with
    | some (c, off) => (v.data[off]?, ⟨c, off, it.index + 1⟩)
    | none => (none, it)

/-- `Iter::size_hint` / `len`. -/
def View.len {α} (v : View α) (it : ViewIter) : Nat := size v.shape - it.index

/-- Drive the iterator `fuel` times, collecting the items up to the first `None`. -/
def View.collect {α} (v : View α) : Nat → ViewIter → List α
  | 0, _ => []
  | fuel + 1, it => match v.next it with
    | (some x, it') => x :: v.collect fuel it'
    | (none, _) => []

/-- `view.iter().collect()`. -/
def View.toList {α} (v : View α) : List α := v.collect (size v.shape + 1) (ViewIter.init v)

/-- `AxisIter::next`: state is the position along the axis. -/
def Arr.axisNext {α} (a : Arr α) (axis : Nat) (index : Nat) : Option (View α) × Nat :=
  match a.getAxis axis index with
  | some v => (some v, index + 1)
  | none => (none, index)

/-- `AxisIter::size_hint` (fixed: remaining, 0 for an out-of-range axis). -/
def Arr.axisLen {α} (a : Arr α) (axis : Nat) (index : Nat) : Nat :=
  match a.shape[axis]? with
  | some n => n - index
  | none => 0

/-- `IndicesIter::next`. -/
def indicesNext (shape : List Nat) (index : Nat) : Option (List Nat) × Nat :=
  if index < size shape then (some (indexFromFlat shape index), index + 1) else (none, index)

def indicesLen (shape : List Nat) (index : Nat) : Nat := size shape - index

/-- Call `next` `n` times from state `s`, recording every returned item (call history). -/
def runIter {σ β} (next : σ → Option β × σ) : Nat → σ → List (Option β) × σ
  | 0, s => ([], s)
  | n + 1, s => let (x, s') := next s; let (xs, s'') := runIter next n s'; (x :: xs, s'')

/-- The state reached after `n` calls. -/
def iterState {σ β} (next : σ → Option β × σ) (n : Nat) (s : σ) : σ := (runIter next n s).2

/-- All views along an axis, as `iter_axis` yields them. -/
def Arr.axisViews {α} (a : Arr α) (axis : Nat) : List (View α) :=
  (List.range (a.shape.getD axis 0)).filterMap (a.getAxis axis)

/-- `Array::sum`: fold the views into zeros with `zip` (shorter side wins, as in Rust). -/
def Arr.sumAxis {α} [Add α] [OfNat α 0] (a : Arr α) (axis : Nat) : Arr α :=
  let smaller := removeAt a.shape axis
  let zero : List α := List.replicate (size smaller) 0
  let data := (a.axisViews axis).foldl
    (fun acc v => (List.zipWith (· + ·) acc v.toList) ++ acc.drop v.toList.length) zero
  ⟨data, smaller⟩

end Sfs

/- Rust functions mirrored in this file beyond those cited above (read by tools/trace_matrix.py):
   core/src/array.rs: from_element, from_zeros (constant arrays), index_axis (get_axis + unwrap), iter_indices (indicesNext); core/src/array/iter.rs: from_shape; core/src/array/view.rs: to_array (ViewIter collected: view_toList); core/src/array/shape.rs: remove_axis; core/src/array/shape/removed_axis.rs: len; core/src/array/shape/strides.rs: remove_axis (removeAt on shape and strides) -/
