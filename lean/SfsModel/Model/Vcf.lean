/-
L2 — the call-set decoders: VCF text and uncompressed BCF 2.2, restricted to what `sfs create` consumes (sample names
from the header, and per record: contig, position and the GT value of every sample). In the implementation the parsing
is noodles-vcf / noodles-bcf (third-party); sfs's own part is `genotype/reader/{vcf,bcf}.rs`: the GT value is looked up by
key per sample (`sample_genotypes`), a missing value is a missing genotype, and the GT string is parsed into alleles
(`Model/Create.lean: parseGT`, `classifyField`).

The decoders are *partial on purpose*: they return `none` ("not modelled") for anything outside the grammar spelled out
here (quoted header values, INFO typing errors, BCF vectors other than int8 GT, …), and `some` only for inputs whose
meaning is fixed by the VCF 4.3 / BCF 2.2 specifications in the way noodles 0.35 / 0.32 implement them; a record that
the parser rejects is `Rec.corrupt`. The correspondence check runs them on the very bytes handed to the binary.
Core Lean only.
-/
import SfsModel.Model.Create
import SfsModel.Model.Bgzf
namespace Sfs

/-! ## bytes and text -/

def splitBytes (c : Nat) : List Nat → List (List Nat)
  | [] => [[]]
  | x :: xs =>
    match splitBytes c xs with
    | [] => [[x]]
    | cur :: rest => if x = c then [] :: cur :: rest else (x :: cur) :: rest

/-- ASCII only: a byte ≥ 128 makes the input "not modelled". -/
def asciiString (l : List Nat) : Option String :=
  if l.all (· < 128) then some (String.ofList (l.map Char.ofNat)) else none

def strBytes (s : String) : List Nat := s.toList.map Char.toNat

def bytesNat (l : List Nat) : Option Nat :=
  if !l.isEmpty && l.all (fun b => 48 ≤ b ∧ b ≤ 57) then some (l.foldl (fun acc b => 10 * acc + (b - 48)) 0) else none

/-- POS as `usize::from_str` reads it: an optional `+`, digits, a value below 2^64. -/
def posNat (l : List Nat) : Option Nat :=
  let d := match l with
    | 43 :: r => r
    | _ => l
  match bytesNat d with
  | some n => if n < 2 ^ 64 then some n else none
  | none => none

/-- an ALT allele as modelled: bases, or `*` (the overlapping-deletion allele) -/
def isAltAllele (l : List Nat) : Bool := l = [42] || (!l.isEmpty && l.all (fun b => b = 65 ∨ b = 67 ∨ b = 71 ∨ b = 84 ∨ b = 78))

def isBases (l : List Nat) : Bool := !l.isEmpty && l.all (fun b => b = 65 ∨ b = 67 ∨ b = 71 ∨ b = 84 ∨ b = 78)

def hasInfix (p : List Nat) : List Nat → Bool
  | [] => p.isEmpty
  | x :: xs => p.isPrefixOf (x :: xs) || hasInfix p xs

/-- `str::lines`-like split of the body: `\n` separated, a trailing newline does not open a further line. -/
def splitLines (bytes : List Nat) : List (List Nat) :=
  let ls := splitBytes 10 bytes
  if ls.getLast? = some [] then ls.dropLast else ls

/-! ## header -/

/-- `ID=<value>` of a structured meta line `##KIND=<ID=…,…>` (unquoted ID values only). -/
def metaId (kind : String) (line : List Nat) : Option (List Nat) :=
  let pfx := strBytes ("##" ++ kind ++ "=<ID=")
  if pfx.isPrefixOf line then some ((line.drop pfx.length).takeWhile (fun b => b ≠ 44 ∧ b ≠ 62)) else none

/-- `,IDX=<digits>` at the end of the body of a structured line (what stands before the closing `>`), as bcftools / htslib write it on
    every contig / FILTER / INFO / FORMAT line of a BCF header: the index, and the body without the attribute. -/
def splitIdx (body : List Nat) : Option Nat × List Nat :=
  let digits := (body.reverse.takeWhile (fun b => 48 ≤ b ∧ b ≤ 57)).reverse
  let rest := body.take (body.length - digits.length)
  let tag := strBytes ",IDX="
  if !digits.isEmpty && tag.reverse.isPrefixOf rest.reverse then (bytesNat digits, rest.take (rest.length - tag.length)) else (none, body)

/-- The `IDX` attribute of a structured header line, if it ends in one. -/
def lineIdx (l : List Nat) : Option Nat := if l.getLast? = some 62 then (splitIdx l.dropLast).1 else none

/-- noodles' `string_maps::insert`: without `IDX` an id that is new goes to the end (a known one stays where it is); with `IDX = i` a
    known id must already sit at `i` (otherwise the header is refused: `none`), a new one is put at position `i`, the dictionary being
    padded with gaps as needed (putting it on top of another entry is not modelled: `none`). -/
def dictInsert (d : List (Option String)) (id : String) (idx : Option Nat) : Option (List (Option String)) :=
  match idx with
  | none => if d.contains (some id) then some d else some (d ++ [some id])
  | some i =>
    match d.idxOf? (some id) with
    | some j => if i = j then some d else none
    | none =>
      let d' := if i < d.length then d else d ++ List.replicate (i + 1 - d.length) none
      match d'[i]? with
      | some (some _) => none
      | _ => some (d'.set i (some id))

/-- A FILTER / INFO / FORMAT definition in the one spelling that is modelled: `##FILTER=<ID=x,Description="…">`,
    `##INFO=<ID=x,Number=…,Type=…,Description="…">`, the same for FORMAT; the FORMAT line of `GT` must declare
    `Number=1,Type=String` (any other declaration is refused by the parser or changes how the values are read). Everything
    else is "not modelled". -/
def metaLineOk (l0 : List Nat) : Bool :=
  -- an `IDX` attribute at the end is set aside first
  let l := if l0.getLast? = some 62 then (splitIdx l0.dropLast).2 ++ [62] else l0
  let quoted := hasInfix (strBytes ",Description=\"") l && l.getLast? = some 62 && (l.dropLast).getLast? = some 34
  if (strBytes "##FILTER=<ID=").isPrefixOf l then quoted
  else if (strBytes "##FORMAT=<ID=GT,").isPrefixOf l then (strBytes "##FORMAT=<ID=GT,Number=1,Type=String,Description=\"").isPrefixOf l && quoted
  else quoted && hasInfix (strBytes ",Number=") l && (hasInfix (strBytes ",Type=Integer,") l || hasInfix (strBytes ",Type=Float,") l ||
    hasInfix (strBytes ",Type=String,") l || hasInfix (strBytes ",Type=Flag,") l || hasInfix (strBytes ",Type=Character,") l)

/-- Any other `##` line: `##key=value` with a non-empty key and a non-empty value; a structured value `<…>` must start with
    `<ID=` and end with `>`; a second `##fileformat` line is refused by the parser ("not modelled" here). -/
def otherMetaOk (l : List Nat) : Bool :=
  let body := l.drop 2
  let key := body.takeWhile (· ≠ 61)
  let value := (body.dropWhile (· ≠ 61)).drop 1
  !key.isEmpty && !value.isEmpty && key.all (fun b => b ≠ 32 ∧ b ≠ 60) && key ≠ strBytes "fileformat" &&
    (value.head? ≠ some 60 || ((strBytes "<ID=").isPrefixOf value && value.getLast? = some 62))

structure VcfHeader where
  samples : List String
  contigs : List (Option String)  -- BCF contig dictionary: `##contig` IDs in order of appearance, or where their `IDX` puts them (`none`: a gap)
  strings : List (Option String)  -- BCF string dictionary: PASS, then FILTER / INFO / FORMAT IDs in order of first appearance / by `IDX`
deriving Repr, DecidableEq

def chromLinePrefix : List Nat := strBytes "#CHROM\tPOS\tID\tREF\tALT\tQUAL\tFILTER\tINFO\tFORMAT\t"

/-- Header lines: `##fileformat=VCFv4.x` first, then `##` meta lines (contig / FILTER / INFO / FORMAT collected, no `IDX`),
    then the `#CHROM` line with FORMAT and at least one sample. Returns the header and the remaining lines. -/
def parseVcfHeaderLines (lines : List (List Nat)) : Option (VcfHeader × List (List Nat)) :=
  match lines with
  | [] => none
  | first :: rest =>
    -- `##fileformat=VCFv4.<minor>` with a minor version of one to three digits and nothing after it (anything else is refused or read
    -- under other rules: not modelled)
    let minor := first.drop (strBytes "##fileformat=VCFv4.").length
    if !(strBytes "##fileformat=VCFv4.").isPrefixOf first || minor.isEmpty || minor.length > 3 || !minor.all (fun b => 48 ≤ b ∧ b ≤ 57) then none else
    let rec go (fuel : Nat) (ls : List (List Nat)) (contigs strings : List (Option String)) : Option (VcfHeader × List (List Nat)) :=
      match fuel, ls with
      | 0, _ => none
      | _, [] => none
      | fuel + 1, l :: ls' =>
        if (strBytes "##").isPrefixOf l then
          -- `IDX=` anywhere but at the very end of a contig / FILTER / INFO / FORMAT line: not modelled
          let idx := lineIdx l
          let body := if idx.isSome then (splitIdx l.dropLast).2 else l
          if hasInfix (strBytes "IDX=") body then none
          else
            match metaId "contig" l with
            | some id => (asciiString id).bind (fun s => (dictInsert contigs s idx).bind (fun c' => go fuel ls' c' strings))
            | none =>
              match (metaId "FILTER" l).orElse (fun _ => (metaId "INFO" l).orElse (fun _ => metaId "FORMAT" l)) with
              | some id =>
                if !metaLineOk l then none else
                (asciiString id).bind (fun s => (dictInsert strings s idx).bind (fun s' => go fuel ls' contigs s'))
              | none => if idx.isNone && otherMetaOk l then go fuel ls' contigs strings else none
        else if chromLinePrefix.isPrefixOf l then
          match ((splitBytes 9 (l.drop chromLinePrefix.length)).mapM asciiString) with
          | some names => if names.any (· == "") || !names.Nodup then none else some (⟨names, contigs, strings⟩, ls')
          | none => none
        else none
    go (rest.length + 1) rest [] [some "PASS"]

/-! ## VCF records -/

/-- The GT value of one sample field given the position of `GT` among the FORMAT keys (`none`: no GT key). The whole
    field `.`, a field with fewer values than keys, and the value `.` are all "missing". Outer `none` = unparsable GT. -/
def sampleGt (gtIdx : Option Nat) (field : List Nat) : Option GtRes :=
  match gtIdx with
  | none => some (.skipped .missing)
  | some i =>
    if field = [46] then some (.skipped .missing) else
    match (splitBytes 58 field)[i]? with
    | none => some (.skipped .missing)
    | some v =>
      match parseGT (v.map Char.ofNat) with
      | some f => some (classifyField f)
      | none => none

/-- FORMAT keys as the generators and ordinary files spell them: letters and digits. -/
def formatKeyOk (k : List Nat) : Bool :=
  !k.isEmpty && k.all (fun b => (65 ≤ b ∧ b ≤ 90) ∨ (97 ≤ b ∧ b ≤ 122) ∨ (48 ≤ b ∧ b ≤ 57))

/-- `;`-separated entries with a repeat (ID, FILTER, the keys of INFO): the parser refuses the record. -/
def hasDupEntry (entries : List (List Nat)) : Bool := !entries.Nodup

/-- One record line of a file with `nSamples` sample columns. `none` = not modelled; `some (.corrupt ..)` = the parser rejects the
    record. The fixed fields are accepted only in the plain spellings (`.` for ID / QUAL / FILTER or `PASS`, bases for REF / ALT),
    except that a repeated entry in ID, FILTER or among the INFO keys, an empty INFO column, fewer sample columns than the header
    declares, and a sample with more values than FORMAT keys are recognised as what the parser refuses. INFO values are not
    interpreted (the generators write well-typed ones); sample columns beyond the declared ones are ignored, as the parser does. -/
def parseVcfRecord (nSamples : Nat) (prevPos : Nat) (line : List Nat) : Option Rec :=
  match splitBytes 9 line with
  | chrom :: pos :: id :: ref :: alt :: qual :: filter :: info :: format :: samples =>
    match asciiString chrom with
    | none => none
    | some c =>
      if c == "" then none else
      -- contig names of letters, digits, `_` `.` `-` only (symbols `<x>`, `*`, blanks, a leading `#`: not modelled)
      if !c.toList.all (fun ch => ch.isAlphanum || ch == '_' || ch == '.' || ch == '-') then none else
      match posNat pos with
      | none => some (.corrupt c prevPos)     -- the record buffer is filled in place: CHROM is the new one, POS still the previous record's
      | some p =>
        if samples.isEmpty then none else
        if p < 1 then none else
        if id ≠ [46] ∧ hasDupEntry (splitBytes 59 id) then some (.corrupt c p) else
        if filter ≠ [46] ∧ hasDupEntry (splitBytes 59 filter) then some (.corrupt c p) else
        if info.isEmpty ∨ (info ≠ [46] ∧ hasDupEntry ((splitBytes 59 info).map (fun f => f.takeWhile (· ≠ 61)))) then some (.corrupt c p) else
        let plain := id = [46] && isBases ref && (alt = [46] || (splitBytes 44 alt).all isAltAllele) && qual = [46] &&
          (filter = [46] || filter = strBytes "PASS")
        if !plain then none else
        let keys := splitBytes 58 format
        if !keys.all formatKeyOk then none else                              -- other key spellings: not modelled
        if !keys.Nodup then some (.corrupt c p) else                         -- a repeated FORMAT key is refused
        let gtIdx := keys.idxOf? (strBytes "GT")
        if gtIdx.isSome && gtIdx ≠ some 0 then some (.corrupt c p) else     -- "GT must be the first key"
        if samples.length < nSamples then some (.corrupt c p) else
        let samples := samples.take nSamples
        if samples.any (fun f => f ≠ [46] ∧ (splitBytes 58 f).length > keys.length) then some (.corrupt c p) else
        -- the values of the other keys are typed by the header: only `.` and plain digits are modelled
        if samples.any (fun f => f ≠ [46] ∧ ((splitBytes 58 f).drop (if gtIdx.isSome then 1 else 0)).any (fun v => v ≠ [46] ∧ (bytesNat v).isNone)) then none else
        match samples.mapM (sampleGt gtIdx) with
        | some gts => some (.gts c p gts)
        | none => some (.corrupt c p)
  | chrom :: pos :: _ =>
    -- fewer than ten fields: a truncated line is rejected (a line without FORMAT / samples is not modelled)
    match asciiString chrom, bytesNat pos with
    | some c, some p => if (splitBytes 9 line).length < 8 then some (.corrupt c p) else none
    | some c, none => some (.corrupt c prevPos)
    | none, _ => none
  | _ => none

/-- Records up to and including the first corrupt one (reading stops there). `prevPos` is the position the reader's record buffer holds
    when the line is parsed: 1 for the first record (the buffer's default), afterwards the previous record's POS — it is what an error
    about an unreadable POS column is reported with. -/
def parseVcfRecords (nSamples : Nat) (prevPos : Nat) : List (List Nat) → Option (List Rec)
  | [] => some []
  | l :: ls =>
    if l.isEmpty then none else
    match parseVcfRecord nSamples prevPos l with
    | none => none
    | some (.corrupt c p) => some [.corrupt c p]
    | some (.gts c p g) => (parseVcfRecords nSamples p ls).map (Rec.gts c p g :: ·)

/-- Plain VCF text → call set. -/
def vcfDecode (bytes : List Nat) : Option (List String × List Rec) :=
  if bytes.contains 13 then none else
  match parseVcfHeaderLines (splitLines bytes) with
  | none => none
  | some (h, recLines) => (parseVcfRecords h.samples.length 1 recLines).map (fun rs => (h.samples, rs))

/-! ## BCF -/

def takeN (n : Nat) (l : List Nat) : Option (List Nat × List Nat) :=
  if l.length < n then none else some (l.take n, l.drop n)

def leNat : List Nat → Nat
  | [] => 0
  | b :: bs => b + 256 * leNat bs

/-- A typed integer scalar (type 1 / 2 / 3 with length 1): value and rest. Negative values are not needed (`none`). -/
def bcfTypedInt (l : List Nat) : Option (Nat × List Nat) :=
  match l with
  | 0x11 :: v :: rest => if v < 128 then some (v, rest) else none
  | 0x12 :: a :: b :: rest => if b < 128 then some (a + 256 * b, rest) else none
  | 0x13 :: a :: b :: c :: d :: rest => if d < 128 then some (leNat [a, b, c, d], rest) else none
  | _ => none

/-- Type descriptor byte: (element count, type code), the count possibly spilled into a following typed integer. -/
def bcfDescriptor (l : List Nat) : Option (Nat × Nat × List Nat) :=
  match l with
  | [] => none
  | d :: rest =>
    let ty := d % 16
    let n := d / 16
    if n = 15 then (bcfTypedInt rest).map (fun p => (p.1, ty, p.2)) else some (n, ty, rest)

def bcfTypeSize (ty : Nat) : Option Nat :=
  if ty = 1 then some 1 else if ty = 2 then some 2 else if ty = 3 then some 4 else if ty = 5 then some 4 else if ty = 7 then some 1 else none

/-- The alleles of one sample's int8 GT vector: `0x81` ends the vector, `v >> 1 = 0` is a missing allele, otherwise
    allele index `(v >> 1) - 1`; the phasing bit is ignored. -/
def bcfGtAlleles : List Nat → List (Option Nat)
  | [] => []
  | v :: vs => if v = 0x81 then [] else (if v / 2 = 0 then none else some (v / 2 - 1)) :: bcfGtAlleles vs

def bcfGtRes (vals : List Nat) : Option GtRes :=
  if vals.any (fun v => v ≥ 0x80 ∧ v ≠ 0x81) then none else     -- reserved / negative int8 values: not modelled
  match bcfGtAlleles vals with
  | [] => none                                    -- a vector that starts with end-of-vector: not modelled
  | [none] => some (.skipped .missing)           -- how a wholly missing genotype is spelled in BCF
  | l => some (classify l)

def chunksOf (n : Nat) : Nat → List Nat → List (List Nat)
  | 0, _ => []
  | k + 1, l => l.take n :: chunksOf n k (l.drop n)

/-- One typed value skipped: any count of int8 / int16 / int32 / float / char elements, or the untyped empty vector `0x00`. -/
def bcfSkipTyped (l : List Nat) : Option (List Nat) :=
  match bcfDescriptor l with
  | none => none
  | some (n, ty, rest) =>
    if ty = 0 then (if n = 0 then some rest else none) else
    match bcfTypeSize ty with
    | none => none
    | some sz => (takeN (n * sz) rest).map (·.2)

/-- One typed string (type 7, ASCII; `0x07` is the missing / empty string): content and rest. -/
def bcfTakeString (l : List Nat) : Option (List Nat × List Nat) :=
  match bcfDescriptor l with
  | some (n, 7, rest) => (takeN n rest).bind (fun p => if p.1.all (· < 128) then some p else none)
  | _ => none

/-- `k` allele strings, each a string of bases. -/
def bcfSkipAlleles : Nat → List Nat → Option (List Nat)
  | 0, l => some l
  | k + 1, l => (bcfTakeString l).bind (fun p => if isAltAllele p.1 then bcfSkipAlleles k p.2 else none)

/-- `k` INFO entries: a typed integer key and one typed value each. -/
def bcfSkipInfo : Nat → List Nat → Option (List Nat)
  | 0, l => some l
  | k + 1, l => (bcfTypedInt l).bind (fun p => (bcfSkipTyped p.2).bind (bcfSkipInfo k))

/-- The variable part of the shared block (after its 24 fixed bytes): ID string, `nAllele` allele strings of bases, the FILTER
    vector, `nInfo` INFO entries — and nothing else. -/
def bcfSharedTailOk (nAllele nInfo : Nat) (tail : List Nat) : Bool :=
  match (bcfTakeString tail).bind (fun p => bcfSkipAlleles nAllele p.2) with
  | none => false
  | some r =>
    match (bcfSkipTyped r).bind (bcfSkipInfo nInfo) with
    | some [] => true
    | _ => false

/-- The per-sample block: `nFmt` fields, each `key (typed int) · descriptor · nSample × len values`, and nothing else. `GT`, when
    present, must be the first field (int8 only); the other fields must carry a defined key other than `PASS` and at least one
    int8 / int16 / int32 / float / char value per sample (their values are not interpreted). Returns the GT results, "all missing"
    when there is no GT field. `first` says whether the field at the head is the first one. -/
def bcfIndivGo (gtKey : Option Nat) (strings : List (Option String)) (nSample : Nat) (first : Bool) : Nat → List Nat → Option (Option (List GtRes))
  | 0, l => if l.isEmpty then some none else none
  | nFmt + 1, l =>
    match bcfTypedInt l with
    | none => none
    | some (key, l) =>
      match bcfDescriptor l with
      | none => none
      | some (len, ty, l) =>
        match bcfTypeSize ty with
        | none => none
        | some sz =>
          match takeN (nSample * len * sz) l with
          | none => none
          | some (block, rest) =>
            if some key = gtKey then
              if !first ∨ ty ≠ 1 ∨ len = 0 then none else
              match (chunksOf len nSample block).mapM bcfGtRes, bcfIndivGo gtKey strings nSample false nFmt rest with
              | some gts, some _ => some (some gts)
              | _, _ => none
            else
              -- the key must name an entry of the dictionary (not `PASS`, not a gap)
              if key = 0 ∨ (strings[key]?).join.isNone ∨ len = 0 ∨ (ty = 7 ∧ block.any (· ≥ 128)) then none else
              bcfIndivGo gtKey strings nSample false nFmt rest

def bcfIndiv (gtKey : Option Nat) (strings : List (Option String)) (nSample nFmt : Nat) (l : List Nat) : Option (List GtRes) :=
  (bcfIndivGo gtKey strings nSample true nFmt l).map (fun r => r.getD (List.replicate nSample (.skipped .missing)))

/-- One BCF record (the shared and the per-sample block, after the two length words). Fixed part of the shared block: CHROM,
    POS, rlen (≥ 0), QUAL (only "missing" is modelled), n_info / n_allele (≥ 1), n_sample (must be the header's) / n_fmt. -/
def bcfRecord (h : VcfHeader) (shared indiv : List Nat) : Option Rec :=
  match takeN 24 shared with
  | some ([c0, c1, c2, c3, p0, p1, p2, p3, _, _, _, r3, q0, q1, q2, q3, i0, i1, a0, a1, s0, s1, s2, f], tail) =>
    let chrom := leNat [c0, c1, c2, c3]
    let pos := leNat [p0, p1, p2, p3]
    let nSample := leNat [s0, s1, s2]
    let nAllele := leNat [a0, a1]
    if c3 ≥ 128 ∨ p3 ≥ 128 ∨ r3 ≥ 128 ∨ nSample ≠ h.samples.length then none else
    if [q0, q1, q2, q3] ≠ [0x01, 0x00, 0x80, 0x7f] ∨ nAllele = 0 ∨ pos ≥ 2 ^ 31 - 1 then none else
    if !bcfSharedTailOk nAllele (leNat [i0, i1]) tail then none else
    match (h.contigs[chrom]?).join with
    | none => none
    | some contig =>
      (bcfIndiv (h.strings.idxOf? (some "GT")) h.strings nSample f indiv).map (fun gts => Rec.gts contig (pos + 1) gts)
  | _ => none

def bcfRecords (h : VcfHeader) : Nat → List Nat → Option (List Rec)
  | 0, _ => none
  | fuel + 1, l =>
    if l.isEmpty then some [] else
    match l with
    | a0 :: a1 :: a2 :: a3 :: b0 :: b1 :: b2 :: b3 :: rest =>
      let ls := leNat [a0, a1, a2, a3]
      let li := leNat [b0, b1, b2, b3]
      match takeN ls rest with
      | none => none
      | some (shared, rest) =>
        match takeN li rest with
        | none => none
        | some (indiv, rest) =>
          match bcfRecord h shared indiv, bcfRecords h fuel rest with
          | some r, some rs => some (r :: rs)
          | _, _ => none
    | _ => none

/-- Uncompressed BCF 2.x → call set: magic, header text length, NUL-terminated VCF header text, records. -/
def bcfDecode (bytes : List Nat) : Option (List String × List Rec) :=
  match bytes with
  | 66 :: 67 :: 70 :: 2 :: minor :: t0 :: t1 :: t2 :: t3 :: rest =>
    if minor ≠ 1 ∧ minor ≠ 2 then none else
    match takeN (leNat [t0, t1, t2, t3]) rest with
    | none => none
    | some (text, body) =>
      if text.getLast? ≠ some 0 then none else
      match parseVcfHeaderLines (splitLines text.dropLast) with
      | some (h, []) => (bcfRecords h (body.length + 1) body).map (fun rs => (h.samples, rs))
      | _ => none
  | _ => none

end Sfs

/- Rust functions mirrored in this file beyond those cited above (read by tools/trace_matrix.py):
   core/src/input/genotype/reader/vcf.rs: read_genotypes (one record line → GT per sample: parseVcfRecord); core/src/input/genotype/reader/bcf.rs: read_genotypes (one BCF record → GT per sample: bcfRecord) -/
