/-
L2 — the skeleton shared by the three spectrum-consuming subcommands (`cli/src/view.rs`, `cli/src/fold.rs`,
`cli/src/stat.rs` + `stat/runner.rs`): (1) read the whole input and parse it (`read::Builder::read`), (2) compute,
(3) only then write to stdout. `main` maps every `Err` to a message on stderr and exit status 1.
The subcommand's own work on the spectrum (`viewRun`, `foldSpectrum`, the statistics) is a parameter here; it is modelled
in `Model/Spectrum.lean` / `Model/Stat.lean`. Core Lean only.
-/
import SfsModel.Model.Text
namespace Sfs

structure SpecOut where
  code : Nat
  stdout : List Nat
deriving Repr, DecidableEq

/-- `compute` returns the bytes to print, or fails with a diagnosed error (wrong dimensionality, invalid option, an npy header that
    does not fit …) after having printed some bytes — the header row of `sfs stat -H` in front of a statistic that does not apply, the
    npy magic and version in front of a header that is too long; a run that fails keeps what it had already written. -/
def specCli (compute : List Nat × List Nat → Except (List Nat) (List Nat)) (bytes : List Nat) : SpecOut :=
  match readSpectrum bytes with
  | .error _ => ⟨1, []⟩
  | .ok s =>
    match compute s with
    | .error written => ⟨1, written⟩
    | .ok out => ⟨0, out⟩

/-- `Input::new` (`core/src/input.rs`): with a path argument while stdin is not a terminal, or without a path while stdin
    is a terminal, the invocation is refused — unless the environment variable `SFS_ALLOW_STDIN` is set. -/
inductive InputSel where
  | path | stdin
deriving Repr, DecidableEq

def inputNew (pathGiven stdinIsTerminal envSet : Bool) : Option InputSel :=
  if pathGiven && !stdinIsTerminal && !envSet then none
  else if !pathGiven && stdinIsTerminal && !envSet then none
  else some (if pathGiven then .path else .stdin)

end Sfs
