/-
The `std::io::{BufRead, Read, Write}` contract as the sfs readers and writers use it, with an explicit
chunk schedule and an optional failure offset, and the npy / text readers and writers re-expressed over it
line by line (`read_exact`, the `fill_buf().is_empty()` loop, `read_line`, `read_to_string`, `write_all`).
Used by C18 (schedule independence, failures surface). Core Lean only.
-/
import SfsModel.Model.Text
namespace Sfs

/-- A buffered reader: remaining bytes, upcoming chunk sizes, bytes left in the current buffer, and how many
    more bytes the underlying reader can deliver before it fails (`none` = never fails). -/
structure Rd where
  data : List Nat
  sched : List Nat := []
  avail : Nat := 0
  failAt : Option Nat := none
deriving Repr

/-- `fill_buf`. -/
def Rd.fillBuf (r : Rd) : Except IoErr (List Nat × Rd) :=
  if r.avail > 0 then .ok (r.data.take r.avail, r)
  else match r.failAt with
    | some 0 => .error .io
    | fa =>
      if r.data.isEmpty then .ok ([], r)
      else
        let c := min (max 1 (r.sched.headD r.data.length)) r.data.length
        let c := match fa with | some k => min c k | none => c
        .ok (r.data.take c, { r with avail := c, sched := r.sched.tail })

/-- `consume`. -/
def Rd.consume (r : Rd) (n : Nat) : Rd :=
  { r with data := r.data.drop n, avail := r.avail - n, failAt := r.failAt.map (· - n) }

/-- `read_exact(n)` = loop of `read` (= `fill_buf`, copy, `consume`); `fuel ≥ n`. -/
def Rd.readExact : Nat → Nat → Rd → Except IoErr (List Nat × Rd)
  | _, 0, r => .ok ([], r)
  | 0, _ + 1, _ => .error .eof
  | fuel + 1, n + 1, r =>
    match r.fillBuf with
    | .error e => .error e
    | .ok (buf, r') =>
      if buf.isEmpty then .error .eof
      else
        let k := min buf.length (n + 1)
        match Rd.readExact fuel (n + 1 - k) (r'.consume k) with
        | .ok (more, r'') => .ok (buf.take k ++ more, r'')
        | .error e => .error e

/-- `read_to_end`. -/
def Rd.readToEnd : Nat → Rd → Except IoErr (List Nat × Rd)
  | 0, r => .ok ([], r)
  | fuel + 1, r =>
    match r.fillBuf with
    | .error e => .error e
    | .ok (buf, r') =>
      if buf.isEmpty then .ok ([], r')
      else match Rd.readToEnd fuel (r'.consume buf.length) with
        | .ok (more, r'') => .ok (buf ++ more, r'')
        | .error e => .error e

/-- `read_line` (bytes up to and including the first `\n`, or to EOF). -/
def Rd.readLine : Nat → Rd → Except IoErr (List Nat × Rd)
  | 0, r => .ok ([], r)
  | fuel + 1, r =>
    match r.fillBuf with
    | .error e => .error e
    | .ok (buf, r') =>
      if buf.isEmpty then .ok ([], r')
      else
        let pre := buf.takeWhile (· ≠ 10)
        if pre.length < buf.length then .ok (pre ++ [10], r'.consume (pre.length + 1))
        else match Rd.readLine fuel (r'.consume buf.length) with
          | .ok (more, r'') => .ok (buf ++ more, r'')
          | .error e => .error e

/-- The value loop of `TypeDescriptor::read` over a reader. -/
def readValuesRd (en : Endian) (t : NpyTy) : Nat → Rd → Except IoErr (List Nat)
  | 0, _ => .ok []
  | fuel + 1, r =>
    match r.fillBuf with
    | .error e => .error e
    | .ok (buf, r') =>
      if buf.isEmpty then .ok []
      else match r'.readExact t.width t.width with
        | .error e => .error e
        | .ok (bytes, r'') =>
          match readValuesRd en t fuel r'' with
          | .ok vs => .ok (decodeValue en t bytes :: vs)
          | .error e => .error e

/-- `read_array` over a reader (same steps as `readNpy`, through `read_exact`). -/
def readNpyRd (r : Rd) : Except IoErr (List Nat × List Nat) :=
  match r.readExact 6 6 with
  | .error e => .error e
  | .ok (magic, r) =>
    if magic ≠ npyMagic then .error .invalid
    else match r.readExact 2 2 with
    | .error e => .error e
    | .ok (ver, r) =>
      let lenWidth : Option Nat := match ver.getD 0 0 with
        | 1 => some 2 | 2 => some 4 | 3 => some 4 | _ => none
      match lenWidth with
      | none => .error .invalid
      | some w => match r.readExact w w with
        | .error e => .error e
        | .ok (lb, r) =>
          let headerLen := ofLeBytes lb
          match r.readExact headerLen headerLen with
          | .error e => .error e
          | .ok (dictBytes, r) =>
            if !allAscii dictBytes then .error .invalid
            else match parseNpyDict (bytesToChars dictBytes) with
              | none => .error .invalid
              | some d =>
                if d.fortran then .error .invalid
                else match readValuesRd d.endian d.ty (r.data.length + 1) r with
                  | .error e => .error e
                  | .ok vals => if checkedSize d.shape = some vals.length then .ok (d.shape, vals) else .error .invalid

/-- `read_scs` over a reader: `Header::read` first (`read_line`, the line parsed — a bad header line is reported without reading
    any further), then `read_to_string` and the values. -/
def readTextRd (r : Rd) : Except IoErr (List Nat × List Nat) :=
  match r.readLine (r.data.length + 1) with
  | .error e => .error e
  | .ok (lineB, r) =>
    if !allAscii lineB then .error .invalid
    else match parseTextHeader ((bytesToChars lineB).takeWhile (· ≠ '\n')) with
      | none => .error .invalid
      | some shape =>
        match r.readToEnd (r.data.length + 1) with
        | .error e => .error e
        | .ok (restB, _) =>
          if !allAscii restB then .error .invalid
          else match (splitWs (bytesToChars restB)).mapM parseF64 with
            | none => .error .invalid
            | some vals => if checkedSize shape = some vals.length then .ok (shape, vals) else .error .invalid

/-! ## writers -/

/-- A writer accepting a scheduled number of bytes per `write` call, failing after `failAt` bytes. -/
structure Wr where
  out : List Nat := []
  sched : List Nat := []
  failAt : Option Nat := none
deriving Repr

/-- `write`: accepts between 1 and `buf.length` bytes (0 only for an empty buffer). -/
def Wr.write (w : Wr) (buf : List Nat) : Except IoErr (Nat × Wr) :=
  match w.failAt with
  | some 0 => if buf.isEmpty then .ok (0, w) else .error .io
  | fa =>
    let c := min (max 1 (w.sched.headD buf.length)) buf.length
    let c := match fa with | some k => min c k | none => c
    .ok (c, { out := w.out ++ buf.take c, sched := w.sched.tail, failAt := fa.map (· - c) })

/-- `write_all`. -/
def Wr.writeAll : Nat → List Nat → Wr → Except IoErr Wr
  | _, [], w => .ok w
  | 0, _ :: _, _ => .error .io
  | fuel + 1, buf, w =>
    match w.write buf with
    | .error e => .error e
    | .ok (n, w') => if n = 0 then .error .io else Wr.writeAll fuel (buf.drop n) w'

def Wr.writeAllOf (w : Wr) (buf : List Nat) : Except IoErr Wr := Wr.writeAll buf.length buf w

/-- sequence of `write_all` calls -/
def Wr.writePieces : List (List Nat) → Wr → Except IoErr Wr
  | [], w => .ok w
  | p :: ps, w => match w.writeAllOf p with
    | .ok w' => Wr.writePieces ps w'
    | .error e => .error e

/-- `write_array` through a writer: magic, version, header length, dict, padding, then one `write_all` per value. -/
def writeNpyWr (shape : List Nat) (bits : List Nat) (w : Wr) : Except IoErr Wr :=
  let dict := npyDict shape
  let len := 6 + 2 + 2 + dict.length
  let padLen := 64 - len % 64
  let headerLen := dict.length + padLen
  match w.writePieces [npyMagic, [1, 0]] with
  | .error e => .error e
  | .ok w =>
    if headerLen < 65536 then
      w.writePieces ([leBytes 2 headerLen, asciiBytes dict, List.replicate (padLen - 1) 32 ++ [10]] ++ bits.map (leBytes 8))
    else .error .invalid

/-- `write_spectrum` through a writer. -/
def writeTextWr (shape : List Nat) (bits : List Nat) (p : Nat) (w : Wr) : Except IoErr Wr :=
  match bits with
  | [] => w.writePieces [asciiBytes (textHeader shape), [10], [10]]
  | b :: rest =>
    w.writePieces [asciiBytes (textHeader shape), [10],
      asciiBytes (rest.foldl (fun s x => s ++ ' ' :: fmtFixed x p) (fmtFixed b p)), [10]]

end Sfs
