/-
L2 — code-shaped model of the statistics: `core/src/spectrum/stat.rs` (PiXY, F2, F3, F4, Fst, King, R0, R1),
`spectrum/stat/theta.rs` (Watterson, Tajima = pi, Fu-Li singletons), `spectrum/stat/d.rs` (Tajima's D, Fu and Li's D),
`spectrum/iter.rs` (per-axis frequencies `i/(len-1)`), `utils.rs` (`harmonic`, `p_harmonic`, `binomial(n, 2)`),
`spectrum.rs` (`segregating_sites`, `sum`) and the dispatch `Statistic::calculate` of `cli/src/stat.rs`
(normalisation before f2 / f3 / f4 / Fst, dimension and shape guards), as of the `fix:` commits (saturating
subtractions on degenerate shapes). Generic in the scalar: theorems instantiate a field, the driver runs `XR`
(exact rationals with NaN / ±inf). The two D statistics are kept square-root free: a pair `(num, var)` standing for
`num / sqrt var`. Core Lean only.
-/
import SfsModel.Model.Spectrum
namespace Sfs

section
variable {α : Type} [Add α] [Sub α] [Mul α] [Div α] [NatCast α] [OfNat α 0] [OfNat α 1]

/-- `iter.take(len - 1).skip(1)`: everything but the first and the last element (`saturating_sub` on the empty list). -/
def interior {β : Type} (l : List β) : List β := (l.take (l.length - 1)).drop 1

/-- `iter().enumerate()`. -/
def withIdx {β : Type} (l : List β) : List (Nat × β) := (List.range l.length).zip l

/-- `p_harmonic(n, p) = Σ_{i=1}^{n-1} 1 / i^p` (`(1..n)` is empty for `n ≤ 1`). -/
def harmonicP (n p : Nat) : α :=
  sumList ((List.range' 1 (n - 1)).map (fun i => (1 : α) / ((i ^ p : Nat) : α)))

/-- `harmonic(n) = p_harmonic(n, 1)`: Tajima's / Watterson's `a_n`. -/
def harmonic (n : Nat) : α := harmonicP n 1

/-- `binomial(n, 2)` as the code evaluates it: `0` for `n < 2`, else the exact integer. -/
def binom2 (n : Nat) : Nat := if 2 > n then 0 else n * (n - 1) / 2

/-- `Spectrum::segregating_sites`. -/
def segregating (x : List α) : α := sumList (interior x)

/-- `Estimator::estimate_unchecked`: `Σ_{i=1}^{n-1} weight(i, n) · x_i` with `n = elements - 1`. -/
def thetaEstimate (w : Nat → Nat → α) (x : List α) : α :=
  let n := x.length - 1
  sumList ((interior (withIdx x)).map (fun p => w p.1 n * p.2))

def tajimaWeight (i n : Nat) : α := ((i * (n - i) : Nat) : α) / ((binom2 n : Nat) : α)

def wattersonWeight (_ n : Nat) : α := (1 : α) / harmonic n

/-- `pi` = `Theta<Tajima>`. -/
def statPi (x : List α) : α := thetaEstimate tajimaWeight x

/-- Watterson's theta. -/
def statTheta (x : List α) : α := thetaEstimate wattersonWeight x

/-- Fu and Li's theta: the singleton class (`None` = the code's NaN when there is no entry 1). -/
def thetaFuLi (x : List α) : Option α := x[1]?

/-- A D statistic without its square root: the value is `num / sqrt var`. -/
structure DParts (α : Type) where
  num : α
  var : α
deriving Repr

/-- `D<Tajima>`: `(pi - theta_W) / sqrt(e1 S + e2 S (S - 1))` with Tajima's (1989) constants. -/
def dTajima (x : List α) : DParts α :=
  let n := x.length - 1
  let s : α := segregating x
  let a1 : α := harmonic n
  let a2 : α := harmonicP n 2
  let b1 : α := ((n + 1 : Nat) : α) / ((3 * (n - 1) : Nat) : α)
  let b2 : α := ((2 * (n ^ 2 + n + 3) : Nat) : α) / ((9 * n * (n - 1) : Nat) : α)
  let c1 : α := b1 - (1 : α) / a1
  let c2 : α := b2 - ((n + 2 : Nat) : α) / (a1 * (n : α)) + a2 / (a1 * a1)
  let e1 : α := c1 / a1
  let e2 : α := c2 / (a1 * a1 + a2)
  ⟨statPi x - statTheta x, e1 * s + e2 * s * (s - 1)⟩

/-- `D<FuLi>`: `(theta_W - xi_1) / (sqrt(u S + v S²) / a)`, Fu and Li (1993); stored as `((theta_W - xi_1)·a, u S + v S²)`.
    `none` = NaN (no singleton class). -/
def dFuLi (x : List α) : Option (DParts α) :=
  match thetaFuLi x with
  | none => none
  | some xi1 =>
    let n := x.length - 1
    let s : α := segregating x
    let a : α := harmonic n
    let g : α := harmonicP n 2
    let cNum : α := ((2 * n : Nat) : α) * a - ((4 * (n - 1) : Nat) : α)
    let cDen : α := (((n - 1) * (n - 2) : Nat) : α)
    let c : α := cNum / cDen
    let v : α := (1 : α) + a * a / (g + a * a) * (c - ((n + 1 : Nat) : α) / ((n - 1 : Nat) : α))
    let u : α := a - 1 - v
    some ⟨(statTheta x - xi1) * a, u * s + v * (s * s)⟩

/-- `FrequenciesIter`: per-axis frequency `k_j / (len_j - 1)` at flat position `i`. -/
def freqs (shape : List Nat) (i : Nat) : List α :=
  (List.zip (indexFromFlat shape i) shape).map (fun p => ((p.1 : Nat) : α) / ((p.2 - 1 : Nat) : α))

def nth (l : List α) (j : Nat) : α := l.getD j 0

/-- `Σ_i x_i · w(freqs i)` — the common form of f2, f3, f4. -/
def freqSum (w : List α → α) (a : Arr α) : α :=
  sumList ((withIdx a.data).map (fun p => p.2 * w (freqs a.shape p.1)))

def statF2 (a : Arr α) : α := freqSum (fun f => (nth f 0 - nth f 1) * (nth f 0 - nth f 1)) a
def statF3 (a : Arr α) : α := freqSum (fun f => (nth f 0 - nth f 1) * (nth f 0 - nth f 2)) a
def statF4 (a : Arr α) : α := freqSum (fun f => (nth f 0 - nth f 1) * (nth f 2 - nth f 3)) a

/-- Hudson's Fst as a ratio of sums over the polymorphic cells: `(num, den)`. -/
def fstParts (a : Arr α) : α × α :=
  let niSub : α := ((a.shape.getD 0 0 : Nat) : α) - ((2 : Nat) : α)
  let njSub : α := ((a.shape.getD 1 0 : Nat) : α) - ((2 : Nat) : α)
  (interior (withIdx a.data)).foldl (fun (acc : α × α) p =>
    let f := freqs (α := α) a.shape p.1
    let fi := nth f 0; let fj := nth f 1
    let gi := (1 : α) - fi; let gj := (1 : α) - fj
    let num := (fi - fj) * (fi - fj) - fi * gi / niSub - fj * gj / njSub
    let den := fi * gj + fj * gi
    (acc.1 + p.2 * num, acc.2 + p.2 * den)) (0, 0)

def statFst (a : Arr α) : α := (fstParts a).1 / (fstParts a).2

/-- `PiXY::from_spectrum_unchecked`. -/
def statPiXY (a : Arr α) : α :=
  let n1 := a.shape.getD 0 0 - 1
  let n2 := a.shape.getD 1 0 - 1
  let cells : List (Nat × Nat) := (List.range (n1 + 1)).flatMap (fun m1 => (List.range (n2 + 1)).map (fun m2 => (m1, m2)))
  let kept := ((cells.take (a.data.length - 1)).drop 1)
  let num : α := sumList (kept.map (fun m =>
    nth a.data (m.1 * (n2 + 1) + m.2) * ((m.1 * (n2 - m.2) + m.2 * (n1 - m.1) : Nat) : α)))
  num / ((n1 * n2 : Nat) : α)

/-- entry `[r, c]` of a 3x3 spectrum -/
def at33 (a : Arr α) (r c : Nat) : α := nth a.data (3 * r + c)

def statKing (a : Arr α) : α :=
  (at33 a 1 1 - ((2 : Nat) : α) * (at33 a 0 2 + at33 a 2 0)) /
    (at33 a 0 1 + at33 a 1 0 + ((2 : Nat) : α) * at33 a 1 1 + at33 a 1 2 + at33 a 2 1)

def statR0 (a : Arr α) : α := (at33 a 0 2 + at33 a 2 0) / at33 a 1 1

def statR1 (a : Arr α) : α :=
  at33 a 1 1 / sumList [at33 a 0 1, at33 a 0 2, at33 a 1 0, at33 a 1 2, at33 a 2 0, at33 a 2 1]

end

/-! ## dispatch (`Statistic::calculate`) -/

inductive StatKind where
  | dFuLi | dTajima | f2 | f3 | f4 | fst | pi | piXY | king | r0 | r1 | s | sum | theta
deriving Repr, DecidableEq

def StatKind.all : List StatKind := [.dFuLi, .dTajima, .f2, .f3, .f4, .fst, .pi, .piXY, .king, .r0, .r1, .s, .sum, .theta]

/-- the command-line spelling -/
def StatKind.name : StatKind → String
  | .dFuLi => "d-fu-li" | .dTajima => "d-tajima" | .f2 => "f2" | .f3 => "f3" | .f4 => "f4" | .fst => "fst" | .pi => "pi"
  | .piXY => "pi-xy" | .king => "king" | .r0 => "r0" | .r1 => "r1" | .s => "s" | .sum => "sum" | .theta => "theta"

inductive StatErr where
  | dimension (expected actual : Nat)
  | shape (actual : List Nat)            -- expected 3x3
deriving Repr, DecidableEq

inductive StatVal (α : Type) where
  | val (v : α)
  | d (p : DParts α)        -- num / sqrt var
  | nan
deriving Repr

section
variable {α : Type} [Add α] [Sub α] [Mul α] [Div α] [NatCast α] [OfNat α 0] [OfNat α 1]

def needDim (a : Arr α) (d : Nat) (v : StatVal α) : Except StatErr (StatVal α) :=
  if a.shape.length = d then .ok v else .error (.dimension d a.shape.length)

def need33 (a : Arr α) (v : StatVal α) : Except StatErr (StatVal α) :=
  if a.shape = [3, 3] then .ok v else .error (.shape a.shape)

/-- `scs.clone().into_normalized()`. -/
def normalized (a : Arr α) : Arr α := ⟨normalize a.data, a.shape⟩

/-- `Statistic::calculate`. -/
def statCalc (k : StatKind) (a : Arr α) : Except StatErr (StatVal α) :=
  match k with
  | .dFuLi => needDim a 1 (match dFuLi a.data with | some p => .d p | none => .nan)
  | .dTajima => needDim a 1 (.d (dTajima a.data))
  | .f2 => needDim a 2 (.val (statF2 (normalized a)))
  | .f3 => needDim a 3 (.val (statF3 (normalized a)))
  | .f4 => needDim a 4 (.val (statF4 (normalized a)))
  | .fst => needDim a 2 (.val (statFst (normalized a)))
  | .king => need33 a (.val (statKing a))
  | .pi => needDim a 1 (.val (statPi a.data))
  | .piXY => needDim a 2 (.val (statPiXY a))
  | .r0 => need33 a (.val (statR0 a))
  | .r1 => need33 a (.val (statR1 a))
  | .s => .ok (.val (segregating a.data))
  | .sum => .ok (.val (sumList a.data))
  | .theta => needDim a 1 (.val (statTheta a.data))

end
/-! ## `sfs stat` command line (`cli/src/stat.rs`, `stat/runner.rs`) -/

/-- `Statistic::header_name`. -/
def StatKind.headerName : StatKind → String
  | .dFuLi => "d_fu_li" | .dTajima => "d_tajima" | .f2 => "f2" | .f3 => "f3" | .f4 => "f4" | .fst => "fst" | .pi => "pi"
  | .piXY => "pi_xy" | .king => "king" | .r0 => "r0" | .r1 => "r1" | .s => "segregating_sites" | .sum => "sum" | .theta => "theta"

/-- What `sfs stat` does after the spectrum was read. -/
inductive StatCliOut (α : Type) where
  /-- the number of precision specifiers is neither one nor the number of statistics: a clap-formatted usage error returned as an ordinary error (exit status 1), nothing printed -/
  | usage
  /-- a statistic failed (exit status 1); the header row, if requested, was already written -/
  | failed (header : Option String) (e : StatErr)
  /-- one row: the values in the order requested, each with its precision -/
  | done (header : Option String) (row : List (StatVal α × Nat))

section
variable {α : Type} [Add α] [Sub α] [Mul α] [Div α] [NatCast α] [OfNat α 0] [OfNat α 1]

/-- `Stat::run` + `Runner::run`: pair statistics with precisions (one for all, or one each), write the header row first if
    requested, then compute every statistic (the first failure aborts), then write the row. -/
def statCli (kinds : List StatKind) (precisions : List Nat) (header : Bool) (delim : Char) (a : Arr α) : StatCliOut α :=
  let ps? : Option (List Nat) := match precisions with
    | [p] => some (kinds.map (fun _ => p))
    | ps => if ps.length = kinds.length then some ps else none
  match ps? with
  | none => .usage
  | some ps =>
    let hdr := if header then some (String.intercalate (String.singleton delim) (kinds.map StatKind.headerName)) else none
    match kinds.mapM (fun k => statCalc k a) with
    | .error e => .failed hdr e
    | .ok vs => .done hdr (vs.zip ps)

end

end Sfs

/- Rust functions mirrored in this file beyond those cited above (read by tools/trace_matrix.py):
   cli/src/stat/runner.rs: write_header, write_statistics, write_with_delimiter (statCli: header row, value row, delimiter); core/src/spectrum.rs: iter_frequencies (frequencies of an index), theta_watterson; core/src/spectrum/stat.rs: from_sfs, from_sfs_unchecked (f2 / f3 / f4 / fst on the normalised spectrum); core/src/spectrum/stat/d.rs: from_scs (dimension guard of the D statistics) -/
