/-
L2 — the DEFLATE decoder (RFC 1951) that sits under every BGZF block and under the gzip peek of `Format::detect`.
In the implementation this is third-party code (flate2/miniz_oxide, noodles-bgzf); here it is an executable model so that
the container codecs of C12 are concrete functions rather than parameters. Structure follows Mark Adler's `puff.c`:
bit reader (LSB first), canonical Huffman decoding by code length, stored / fixed / dynamic blocks, LZ77 copies.
Bytes are `Nat`s below 256. Core Lean only.
-/
namespace Sfs

/-- Bit reader: remaining bytes (head = current byte) and the number of bits of the head already consumed (0..7). -/
structure BitRd where
  bytes : List Nat
  bit : Nat
deriving Repr, DecidableEq

def BitRd.readBit (r : BitRd) : Option (Nat × BitRd) :=
  match r.bytes with
  | [] => none
  | b :: rest =>
    let v := (b / 2 ^ r.bit) % 2
    if r.bit ≥ 7 then some (v, ⟨rest, 0⟩) else some (v, ⟨b :: rest, r.bit + 1⟩)

/-- `n` bits, least significant first. -/
def BitRd.readBits : Nat → BitRd → Option (Nat × BitRd)
  | 0, r => some (0, r)
  | n + 1, r =>
    match r.readBit with
    | none => none
    | some (b, r') =>
      match BitRd.readBits n r' with
      | none => none
      | some (v, r'') => some (b + 2 * v, r'')

/-- Discard the rest of a partially consumed byte. -/
def BitRd.align (r : BitRd) : BitRd := if r.bit = 0 then r else ⟨r.bytes.tail, 0⟩

/-- Canonical Huffman code given by `count[len]` (len 0..15) and the symbols ordered by (length, value). -/
structure Huff where
  count : List Nat
  symbol : List Nat
deriving Repr

def Huff.ofLengths (lens : List Nat) : Huff :=
  ⟨(List.range 16).map (fun l => lens.count l),
   (List.range 16).tail.flatMap (fun l => (List.range lens.length).filter (fun s => lens.getD s 0 = l))⟩

/-- `puff.c: decode` — one bit at a time, comparing against the first code of each length. -/
def Huff.decodeGo (h : Huff) : Nat → Nat → Nat → Nat → Nat → BitRd → Option (Nat × BitRd)
  | 0, _, _, _, _, _ => none
  | fuel + 1, len, code, first, index, r =>
    match r.readBit with
    | none => none
    | some (b, r') =>
      let code := code + b
      let count := h.count.getD len 0
      if code < first + count then
        (if code < first then none else some (h.symbol.getD (index + (code - first)) 0, r'))
      else h.decodeGo fuel (len + 1) (2 * code) (2 * (first + count)) (index + count) r'

def Huff.decode (h : Huff) (r : BitRd) : Option (Nat × BitRd) := h.decodeGo 15 1 0 0 0 r

def lenBase : List Nat := [3,4,5,6,7,8,9,10,11,13,15,17,19,23,27,31,35,43,51,59,67,83,99,115,131,163,195,227,258]
def lenExtra : List Nat := [0,0,0,0,0,0,0,0,1,1,1,1,2,2,2,2,3,3,3,3,4,4,4,4,5,5,5,5,0]
def distBase : List Nat := [1,2,3,4,5,7,9,13,17,25,33,49,65,97,129,193,257,385,513,769,1025,1537,2049,3073,4097,6145,8193,12289,16385,24577]
def distExtra : List Nat := [0,0,0,0,1,1,2,2,3,3,4,4,5,5,6,6,7,7,8,8,9,9,10,10,11,11,12,12,13,13]

/-- LZ77 copy: `len` bytes starting `dist` back, byte by byte (the source may overlap the destination). -/
def copyBack (out : Array Nat) (dist : Nat) : Nat → Array Nat
  | 0 => out
  | n + 1 => copyBack (out.push (out.getD (out.size - dist) 0)) dist n

/-- `puff.c: codes` — literal/length and distance symbols until end-of-block (256). Fuel bounds the number of symbols. -/
def inflateCodes (lit dist : Huff) : Nat → BitRd → Array Nat → Option (BitRd × Array Nat)
  | 0, _, _ => none
  | fuel + 1, r, out =>
    match lit.decode r with
    | none => none
    | some (sym, r) =>
      if sym < 256 then inflateCodes lit dist fuel r (out.push sym)
      else if sym = 256 then some (r, out)
      else
        let i := sym - 257
        if i ≥ 29 then none else
        match r.readBits (lenExtra.getD i 0) with
        | none => none
        | some (eb, r) =>
          match dist.decode r with
          | none => none
          | some (ds, r) =>
            if ds ≥ 30 then none else
            match r.readBits (distExtra.getD ds 0) with
            | none => none
            | some (db, r) =>
              let d := distBase.getD ds 0 + db
              if d > out.size then none
              else inflateCodes lit dist fuel r (copyBack out d (lenBase.getD i 0 + eb))

def fixedLit : Huff :=
  Huff.ofLengths (List.replicate 144 8 ++ List.replicate 112 9 ++ List.replicate 24 7 ++ List.replicate 8 8)
def fixedDist : Huff := Huff.ofLengths (List.replicate 30 5)

def clOrder : List Nat := [16,17,18,0,8,7,9,6,10,5,11,4,12,3,13,2,14,1,15]

/-- The code-length alphabet of a dynamic block: symbols 0..15 literal lengths, 16 repeats the previous length 3–6 times,
    17 / 18 emit 3–10 / 11–138 zeros. -/
def readLengths (lencode : Huff) (total : Nat) : Nat → BitRd → List Nat → Option (List Nat × BitRd)
  | 0, _, _ => none
  | fuel + 1, r, acc =>
    if acc.length ≥ total then (if acc.length = total then some (acc, r) else none) else
    match lencode.decode r with
    | none => none
    | some (sym, r) =>
      if sym < 16 then readLengths lencode total fuel r (acc ++ [sym])
      else if sym = 16 then
        match acc.getLast? with
        | none => none
        | some prev =>
          match r.readBits 2 with
          | none => none
          | some (n, r) => readLengths lencode total fuel r (acc ++ List.replicate (3 + n) prev)
      else if sym = 17 then
        match r.readBits 3 with
        | none => none
        | some (n, r) => readLengths lencode total fuel r (acc ++ List.replicate (3 + n) 0)
      else
        match r.readBits 7 with
        | none => none
        | some (n, r) => readLengths lencode total fuel r (acc ++ List.replicate (11 + n) 0)

def readClLens : Nat → BitRd → List Nat → Option (List Nat × BitRd)
  | 0, r, acc => some (acc, r)
  | n + 1, r, acc =>
    match r.readBits 3 with
    | none => none
    | some (v, r) => readClLens n r (acc ++ [v])

/-- `puff.c: dynamic` — read the two code tables of a dynamic block. -/
def readDynamicTables (r : BitRd) : Option (Huff × Huff × BitRd) :=
  match r.readBits 5 with
  | none => none
  | some (hlit, r) =>
    match r.readBits 5 with
    | none => none
    | some (hdist, r) =>
      match r.readBits 4 with
      | none => none
      | some (hclen, r) =>
        let nlen := hlit + 257
        let ndist := hdist + 1
        if nlen > 286 ∨ ndist > 30 then none else
        match readClLens (hclen + 4) r [] with
        | none => none
        | some (cl, r) =>
          let lens19 := (List.range 19).map (fun s =>
            match clOrder.idxOf? s with
            | some j => cl.getD j 0
            | none => 0)
          match readLengths (Huff.ofLengths lens19) (nlen + ndist) (nlen + ndist + 1) r [] with
          | none => none
          | some (lens, r) =>
            if lens.getD 256 0 = 0 then none
            else some (Huff.ofLengths (lens.take nlen), Huff.ofLengths (lens.drop nlen), r)

/-- A stored block: align, LEN, NLEN (one's complement), then LEN literal bytes. -/
def inflateStored (r : BitRd) (out : Array Nat) : Option (BitRd × Array Nat) :=
  match (r.align).bytes with
  | l0 :: l1 :: n0 :: n1 :: rest =>
    let len := l0 + 256 * l1
    if n0 + 256 * n1 + len ≠ 65535 then none
    else if rest.length < len then none
    else some (⟨rest.drop len, 0⟩, out ++ (rest.take len).toArray)
  | _ => none

/-- The block loop. Fuel bounds the number of blocks; every block consumes at least three bits. -/
def inflateBlocks : Nat → BitRd → Array Nat → Option (BitRd × Array Nat)
  | 0, _, _ => none
  | fuel + 1, r, out =>
    match r.readBits 1 with
    | none => none
    | some (final, r) =>
      match r.readBits 2 with
      | none => none
      | some (btype, r) =>
        let res :=
          if btype = 0 then inflateStored r out
          else if btype = 1 then inflateCodes fixedLit fixedDist (8 * r.bytes.length + 8) r out
          else if btype = 2 then
            match readDynamicTables r with
            | none => none
            | some (lit, dist, r) => inflateCodes lit dist (8 * r.bytes.length + 8) r out
          else none
        match res with
        | none => none
        | some (r, out) => if final = 1 then some (r, out) else inflateBlocks fuel r out

/-- Inflate one DEFLATE stream at the head of `bytes`: the decompressed data and the bytes that follow the stream
    (from the next byte boundary). -/
def inflate (bytes : List Nat) : Option (List Nat × List Nat) :=
  match inflateBlocks (8 * bytes.length + 8) ⟨bytes, 0⟩ #[] with
  | none => none
  | some (r, out) => some (out.toList, (r.align).bytes)

/-- The simplest DEFLATE encoder: stored blocks of at most 65535 bytes, the last one flagged final. -/
def deflateStoredBlock (final : Bool) (chunk : List Nat) : List Nat :=
  let len := chunk.length
  [if final then 1 else 0, len % 256, len / 256, (65535 - len) % 256, (65535 - len) / 256] ++ chunk

def deflateStored : Nat → List Nat → List Nat
  | 0, data => deflateStoredBlock true (data.take 65535)
  | fuel + 1, data =>
    if data.length ≤ 65535 then deflateStoredBlock true data
    else deflateStoredBlock false (data.take 65535) ++ deflateStored fuel (data.drop 65535)

end Sfs
