/-
L2 — code-shaped model of the plain text format (`core/src/spectrum/io/text.rs`), format detection
(`spectrum/io.rs`, after fix F3) and the std routines it leans on: `{:.p}` formatting of an f64
(exact decimal expansion, round-half-even, sign kept) and `f64::from_str` (grammar + nearest-even).
Values are binary64 patterns (`Nat`). Core Lean only.
-/
import SfsModel.Model.Npy
namespace Sfs

/-! ## `{:.p}` -/

/-- digits of `n` left-padded with zeros to at least `w` characters. -/
def padDigits (n w : Nat) : List Char :=
  let d := Nat.toDigits 10 n
  List.replicate (w - d.length) '0' ++ d

/-- Non-negative rational to `p` decimals, round-half-even on the exact value. -/
def fmtRatFixed (q : Rat) (p : Nat) : List Char :=
  let scaled := q.num.natAbs * 10 ^ p
  let den := q.den
  let qf := scaled / den
  let r := scaled % den
  let m := if 2 * r > den then qf + 1 else if 2 * r < den then qf else (if qf % 2 = 1 then qf + 1 else qf)
  let ip := m / 10 ^ p
  let fp := m % 10 ^ p
  if p = 0 then Nat.toDigits 10 ip else Nat.toDigits 10 ip ++ '.' :: padDigits fp p

/-- `format!("{x:.p$}")` for the f64 with bit pattern `b`. -/
def fmtFixed (b : Nat) (p : Nat) : List Char :=
  match f64OfBits b with
  | .nan => "NaN".toList
  | .inf neg => if neg then "-inf".toList else "inf".toList
  | .fin q => (if f64Sign b then ['-'] else []) ++ fmtRatFixed (absRat q) p

/-! ## `f64::from_str` -/

def lower (c : Char) : Char := if 'A' ≤ c ∧ c ≤ 'Z' then Char.ofNat (c.toNat + 32) else c

def digitsVal (l : List Char) : Nat := l.foldl (fun acc c => 10 * acc + (c.toNat - '0'.toNat)) 0

/-- Split an unsigned decimal literal `digits [. digits] [e [sign] digits]` into (intDigits, fracDigits, exp).
    `none` if it is not of that form (at least one mantissa digit; exponent digits required after `e`). -/
def splitDecimal (s : List Char) : Option (List Char × List Char × Int) :=
  let ip := s.takeWhile Char.isDigit
  let r1 := s.dropWhile Char.isDigit
  let (fp, r2) : List Char × List Char := match r1 with
    | '.' :: r => (r.takeWhile Char.isDigit, r.dropWhile Char.isDigit)
    | _ => ([], r1)
  if ip.isEmpty && fp.isEmpty then none
  else match r2 with
    | [] => some (ip, fp, 0)
    | e :: r3 =>
      if e = 'e' ∨ e = 'E' then
        let (neg, r4) : Bool × List Char := match r3 with
          | '-' :: r => (true, r)
          | '+' :: r => (false, r)
          | _ => (false, r3)
        if r4.isEmpty || !r4.all Char.isDigit then none
        else
          let ev : Int := (digitsVal r4 : Int)
          some (ip, fp, if neg then -ev else ev)
      else none

/-- `f64::from_str`: bit pattern, or `none` for a parse error. -/
def parseF64 (s : List Char) : Option Nat :=
  let (neg, body) : Bool × List Char := match s with
    | '-' :: r => (true, r)
    | '+' :: r => (false, r)
    | _ => (false, s)
  let sign := if neg then 2 ^ 63 else 0
  let lw := body.map lower
  if lw = "inf".toList ∨ lw = "infinity".toList then some (sign + 2047 * 2 ^ 52)
  else if lw = "nan".toList then some (sign + 2047 * 2 ^ 52 + 2 ^ 51)
  else match splitDecimal body with
    | none => none
    | some (ip, fp, e) =>
      let mant := digitsVal (ip ++ fp)
      let e10 : Int := e - (fp.length : Int)
      if mant = 0 then some sign
      else
        -- guard against astronomically large exponents: the result is decided by the magnitude alone
        let digits : Int := ((Nat.toDigits 10 mant).length : Int)
        if e10 + digits > 400 then some (sign + 2047 * 2 ^ 52)
        else if e10 + digits < -400 then some sign
        else
          let q : Rat := if e10 ≥ 0 then (mant * 10 ^ e10.toNat : Nat) else (mant : Rat) / ((10 ^ (-e10).toNat : Nat) : Rat)
          some (sign + f64BitsOfRatNonneg q)

/-! ## header line -/

def textStart : List Nat := asciiBytes "#SHAPE".toList

/-- `Header` Display. -/
def textHeader (shape : List Nat) : List Char :=
  "#SHAPE=<".toList ++ joinNats ['/'] shape ++ ['>']

/-- `usize::from_str`: optional `+`, one or more digits, value below 2^64. -/
def parseUsize (s : List Char) : Option Nat :=
  let body := match s with
    | '+' :: r => r
    | _ => s
  if body.isEmpty || !body.all Char.isDigit then none
  else let v := digitsVal body; if v < 2 ^ 64 then some v else none

def splitOnChar (c : Char) : List Char → List (List Char)
  | [] => [[]]
  | x :: xs =>
    match splitOnChar c xs with
    | [] => [[x]]
    | cur :: rest => if x = c then [] :: cur :: rest else (x :: cur) :: rest

def trimStartNonDigit (s : List Char) : List Char := s.dropWhile (fun c => !c.isDigit)
def trimEndNonDigit (s : List Char) : List Char := (s.reverse.dropWhile (fun c => !c.isDigit)).reverse

/-- `Header::from_str` (ASCII input): trim non-numeric characters on both ends, split at `/`, parse each. -/
def parseTextHeader (line : List Char) : Option (List Nat) :=
  (splitOnChar '/' (trimEndNonDigit (trimStartNonDigit line))).mapM parseUsize

def isAsciiWs (c : Char) : Bool := c = ' ' ∨ c = '\t' ∨ c = '\n' ∨ c = '\x0c' ∨ c = '\r'

/-- `split_ascii_whitespace`. -/
def splitWs : List Char → List (List Char)
  | [] => []
  | c :: cs =>
    if isAsciiWs c then splitWs cs
    else
      match splitWs cs with
      | [] => [[c]]
      | cur :: rest =>
        match cs with
        | d :: _ => if isAsciiWs d then [c] :: cur :: rest else (c :: cur) :: rest
        | [] => [[c]]

/-! ## reader / writer -/

/-- `write_spectrum`: header line, then the values at precision `p` separated by single spaces, newline. -/
def writeText (shape : List Nat) (bits : List Nat) (p : Nat) : List Char :=
  textHeader shape ++ ['\n'] ++
    (match bits with
     | [] => []
     | b :: rest => rest.foldl (fun s x => s ++ ' ' :: fmtFixed x p) (fmtFixed b p)) ++ ['\n']

/-- `read_scs` on complete (ASCII) input: first line is the header, everything after it the values. -/
def readText (bytes : List Nat) : Except IoErr (List Nat × List Nat) :=
  if !allAscii bytes then .error .invalid          -- (non-ASCII input is not modelled)
  else
    let chars := bytesToChars bytes
    let line := chars.takeWhile (· ≠ '\n')
    let rest := (chars.dropWhile (· ≠ '\n')).drop 1
    match parseTextHeader line with
    | none => .error .invalid
    | some shape =>
      match (splitWs rest).mapM parseF64 with
      | none => .error .invalid
      | some vals => if checkedSize shape = some vals.length then .ok (shape, vals) else .error .invalid

inductive SpecFormat where
  | npy | text
deriving Repr, DecidableEq

/-- `Format::detect` (fixed: `starts_with`): exactly one of the two magic prefixes. -/
def detectFormat (bytes : List Nat) : Option SpecFormat :=
  let n := npyMagic.isPrefixOf bytes
  let t := textStart.isPrefixOf bytes
  if n && !t then some .npy else if t && !n then some .text else none

/-- `read::Builder::read` after `read_to_end`: detect, then parse. -/
def readSpectrum (bytes : List Nat) : Except IoErr (List Nat × List Nat) :=
  match detectFormat bytes with
  | some .text => readText bytes
  | some .npy => readNpy bytes
  | none => .error .invalid

end Sfs

/- Rust functions mirrored in this file beyond those cited above (read by tools/trace_matrix.py):
   core/src/spectrum/io.rs: detect_npy, detect_plain_text (Format::detect by prefix); core/src/spectrum/io/text.rs: format_spectrum (writeText), parse_scs (readText), new (Header::new); core/src/spectrum/io/write.rs: write_to_stdout, write_to_path, write_to_path_or_stdout (the same bytes to either destination; failing destinations are C18's `io.devfull` cases) -/
