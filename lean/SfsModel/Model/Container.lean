/-
L2 — the four input containers of `sfs create` with concrete codecs: plain VCF, BGZF-compressed VCF, BGZF-compressed BCF
and uncompressed BCF, decoded by the models of `Model/Vcf.lean` and `Model/Bgzf.lean`; `createFromBytesC` is
`createFromBytes` (`Model/Detect.lean`) with those codecs plugged in, i.e. `sfs create` as a function of the input bytes.
The encoders (`vcfEncode`, `bcfEncode`, BGZF with stored blocks) exist to state the round-trip theorems of C12; they
write the plainest spelling the decoders accept. Core Lean only.
-/
import SfsModel.Model.Detect
import SfsModel.Model.Vcf
namespace Sfs

/-! ## encoders (plain spellings) -/

def natBytes (n : Nat) : List Nat := (Nat.toDigits 10 n).map Char.toNat

/-- One GT spelling per classification: hom-ref / het / hom-alt, `./.`, `0/2` (multiallelic), haploid `0` (not diploid). -/
def renderGt : GtRes → List Nat
  | .genotype 0 => strBytes "0/0"
  | .genotype 1 => strBytes "0/1"
  | .genotype _ => strBytes "1/1"
  | .skipped .missing => strBytes "./."
  | .skipped .multiallelic => strBytes "0/2"
  | .ploidyError => strBytes "0"

/-- The same classifications as BCF int8 GT values `(allele + 1) << 1`, two per sample; a haploid call is padded with the
    end-of-vector value. -/
def renderGtBcf : GtRes → List Nat
  | .genotype 0 => [2, 2]
  | .genotype 1 => [2, 4]
  | .genotype _ => [4, 4]
  | .skipped .missing => [0, 0]
  | .skipped .multiallelic => [2, 6]
  | .ploidyError => [2, 0x81]

def joinTab : List (List Nat) → List Nat
  | [] => []
  | [x] => x
  | x :: xs => x ++ 9 :: joinTab xs

/-- The header text shared by the VCF and BCF encoders: file format, one `##contig` line per contig, the GT FORMAT line,
    the column line. -/
def headerText (cols contigs : List String) : List Nat :=
  strBytes "##fileformat=VCFv4.3\n" ++
  contigs.flatMap (fun c => strBytes "##contig=<ID=" ++ strBytes c ++ strBytes ">\n") ++
  strBytes "##FORMAT=<ID=GT,Number=1,Type=String,Description=\"Genotype\">\n" ++
  chromLinePrefix ++ joinTab (cols.map strBytes) ++ [10]

def vcfEncodeRec (contig : String) (pos : Nat) (gts : List GtRes) : List Nat :=
  strBytes contig ++ [9] ++ natBytes pos ++ strBytes "\t.\tA\tC\t.\t.\t.\tGT" ++ gts.flatMap (fun g => 9 :: renderGt g) ++ [10]

/-- (contig, position, genotype results) triples → VCF text. -/
def vcfEncode (cols contigs : List String) (recs : List (String × Nat × List GtRes)) : List Nat :=
  headerText cols contigs ++ recs.flatMap (fun r => vcfEncodeRec r.1 r.2.1 r.2.2)

def bcfEncodeRec (contigs : List String) (ncols : Nat) (contig : String) (pos : Nat) (gts : List GtRes) : List Nat :=
  let shared := toLe32 (contigs.idxOf contig) ++ toLe32 (pos - 1) ++ toLe32 1 ++ [0x01, 0x00, 0x80, 0x7f] ++
    toLe32 (2 * 65536) ++ toLe32 (16777216 + ncols) ++ [0x07, 0x17, 65, 0x17, 67, 0x00]
  let indiv := [0x11, 1, 0x21] ++ gts.flatMap renderGtBcf
  toLe32 shared.length ++ toLe32 indiv.length ++ shared ++ indiv

/-- The same triples → uncompressed BCF 2.2. -/
def bcfEncode (cols contigs : List String) (recs : List (String × Nat × List GtRes)) : List Nat :=
  let text := headerText cols contigs ++ [0]
  [66, 67, 70, 2, 2] ++ toLe32 text.length ++ text ++ recs.flatMap (fun r => bcfEncodeRec contigs cols.length r.1 r.2.1 r.2.2)

def toRecs (recs : List (String × Nat × List GtRes)) : List Rec := recs.map (fun r => Rec.gts r.1 r.2.1 r.2.2)

/-- Cut a byte string into chunks of at most `n` bytes (`n ≥ 1`): a BGZF block partition. -/
def chunkBytes (n : Nat) : Nat → List Nat → List (List Nat)
  | 0, _ => []
  | fuel + 1, l => if l.isEmpty then [] else l.take n :: chunkBytes n fuel (l.drop n)

/-- The four containers, BGZF ones with a caller-chosen block payload size `blk` (1 ≤ blk ≤ 65280). -/
def encodeContainer (blk : Nat) (cols contigs : List String) (recs : List (String × Nat × List GtRes)) : Container → List Nat
  | .vcf => vcfEncode cols contigs recs
  | .bcfRaw => bcfEncode cols contigs recs
  | .vcfGz => let p := vcfEncode cols contigs recs; bgzfEncodeStored (chunkBytes blk p.length p)
  | .bcfGz => let p := bcfEncode cols contigs recs; bgzfEncodeStored (chunkBytes blk p.length p)

def decodeContainer : Container → List Nat → Option CallSet
  | .vcf, b => vcfDecode b
  | .bcfRaw, b => bcfDecode b
  | .vcfGz, b => (bgzfDecodeAll b).bind vcfDecode
  | .bcfGz, b => (bgzfDecodeAll b).bind bcfDecode

/-- `sfs create` on input bytes, every stage modelled: detection prefix, gzip peek, BGZF blocks, VCF / BCF decoding, site
    reader, runner, text output. `none` = the input is outside the modelled grammar (or unreadable). -/
def createFromBytesC (a : CreateArgs) (bytes : List Nat) : Option CreateOut :=
  createFromBytes inflate3 decodeContainer a bytes

end Sfs
