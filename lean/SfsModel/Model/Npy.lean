/-
L2 — code-shaped model of `core/src/array/npy.rs`, `npy/header.rs` (after fixes F2, F17) and the nom grammar of
`npy/header/parse.rs`. Bytes are `Nat`s below 256, f64 values are 64-bit patterns (`Nat` below 2^64) so that
NaN payloads and infinities are transported bit-identically. Core Lean only.
-/
import SfsModel.Model.F64
import SfsModel.Model.Array
namespace Sfs

inductive IoErr where
  | eof          -- `read_exact` hit the end (`UnexpectedEof`)
  | io           -- the underlying reader / writer failed
  | invalid      -- `InvalidData` / `InvalidInput`: the content is rejected
deriving Repr, DecidableEq

def asciiBytes (s : List Char) : List Nat := s.map Char.toNat
def bytesToChars (b : List Nat) : List Char := b.map Char.ofNat

def npyMagic : List Nat := [0x93, 78, 85, 77, 80, 89]     -- "\x93NUMPY"

inductive NpyTy where
  | f4 | f8 | i1 | i2 | i4 | i8 | u1 | u2 | u4 | u8
deriving Repr, DecidableEq

inductive Endian where
  | little | big
deriving Repr, DecidableEq

def NpyTy.width : NpyTy → Nat
  | .f4 => 4 | .f8 => 8 | .i1 => 1 | .i2 => 2 | .i4 => 4 | .i8 => 8 | .u1 => 1 | .u2 => 2 | .u4 => 4 | .u8 => 8

def NpyTy.name : NpyTy → List Char
  | .f4 => "f4".toList | .f8 => "f8".toList | .i1 => "i1".toList | .i2 => "i2".toList | .i4 => "i4".toList
  | .i8 => "i8".toList | .u1 => "u1".toList | .u2 => "u2".toList | .u4 => "u4".toList | .u8 => "u8".toList

/-! ## writer -/

def showNat (n : Nat) : List Char := Nat.toDigits 10 n

/-- `shape.iter().map(to_string).join(sep)`. -/
def joinNats (sep : List Char) : List Nat → List Char
  | [] => []
  | [a] => showNat a
  | a :: rest => showNat a ++ sep ++ joinNats sep rest

/-- `HeaderDict` Display for `<f8`, C order. -/
def npyDict (shape : List Nat) : List Char :=
  "{'descr': '<f8', 'fortran_order': False, 'shape': (".toList ++ joinNats ", ".toList shape ++ ",), }".toList

/-- `Header::write` (v1.0): everything before the values; `none` when the header length does not fit `u16`
    (the code then returns an `InvalidInput` error after magic and version have been written). -/
def npyHeader (shape : List Nat) : Option (List Nat) :=
  let dict := npyDict shape
  let len := 6 + 2 + 2 + dict.length
  let rem := len % 64
  let padLen := 64 - rem
  let headerLen := dict.length + padLen
  if headerLen < 65536 then
    some (npyMagic ++ [1, 0] ++ leBytes 2 headerLen ++ asciiBytes dict ++ List.replicate (padLen - 1) 32 ++ [10])
  else none

/-- `write_array`: header then every value as 8 little-endian bytes, row-major. -/
def writeNpy (shape : List Nat) (bits : List Nat) : Except IoErr (List Nat) :=
  match npyHeader shape with
  | some h => .ok (h ++ (bits.map (leBytes 8)).flatten)
  | none => .error .invalid

/-! ## header grammar (nom combinators as functions `input → Option (value × rest)`) -/

abbrev P (α : Type) := List Char → Option (α × List Char)

def pTag (t : List Char) : P Unit := fun inp =>
  if t.isPrefixOf inp then some ((), inp.drop t.length) else none

/-- `space0`: zero or more spaces or tabs. -/
def pSpace0 : P Unit := fun inp => some ((), inp.dropWhile (fun c => c = ' ' ∨ c = '\t'))

/-- `(space0, tag(sep), space0)`. -/
def pWsSep (sep : List Char) : P Unit := fun inp =>
  match pSpace0 inp with
  | some (_, r1) => match pTag sep r1 with
    | some (_, r2) => pSpace0 r2
    | none => none
  | none => none

/-- `delimited(tag(q), is_not(q), tag(q))`: a non-empty run without the quote character. -/
def pQuote (q : Char) : P (List Char) := fun inp =>
  match inp with
  | c :: rest =>
    if c = q then
      let body := rest.takeWhile (· ≠ q)
      let after := rest.dropWhile (· ≠ q)
      if body.isEmpty then none
      else match after with
        | c' :: rest' => if c' = q then some (body, rest') else none
        | [] => none
    else none
  | [] => none

/-- `alt((quote("'"), quote("\"")))`. -/
def pString : P (List Char) := fun inp =>
  match pQuote '\'' inp with
  | some r => some r
  | none => pQuote '"' inp

def pTargetString (t : List Char) : P Unit := fun inp =>
  match pString inp with
  | some (s, r) => if s = t then some ((), r) else none
  | none => none

def pBool : P Bool := fun inp =>
  match pTag "True".toList inp with
  | some (_, r) => some (true, r)
  | none => match pTag "False".toList inp with
    | some (_, r) => some (false, r)
    | none => none

def pEndian : P Endian := fun inp =>
  match inp with
  | '|' :: r => some (.little, r)
  | '<' :: r => some (.little, r)
  | '>' :: r => some (.big, r)
  | _ => none

def pType : P NpyTy := fun inp =>
  match inp with
  | 'f' :: '4' :: r => some (.f4, r) | 'f' :: '8' :: r => some (.f8, r)
  | 'u' :: '1' :: r => some (.u1, r) | 'u' :: '2' :: r => some (.u2, r) | 'u' :: '4' :: r => some (.u4, r) | 'u' :: '8' :: r => some (.u8, r)
  | 'i' :: '1' :: r => some (.i1, r) | 'i' :: '2' :: r => some (.i2, r) | 'i' :: '4' :: r => some (.i4, r) | 'i' :: '8' :: r => some (.i8, r)
  | _ => none

/-- `parse_string.and_then(all_consuming(parse_type_descriptor))`. -/
def pDescrValue : P (Endian × NpyTy) := fun inp =>
  match pString inp with
  | some (s, r) => match pEndian s with
    | some (e, s1) => match pType s1 with
      | some (t, []) => some ((e, t), r)
      | _ => none
    | none => none
  | none => none

/-- `character::complete::u64`: one or more digits, failing on overflow of `u64`. -/
def pU64 : P Nat := fun inp =>
  let ds := inp.takeWhile Char.isDigit
  if ds.isEmpty then none
  else
    let v := ds.foldl (fun acc c => 10 * acc + (c.toNat - '0'.toNat)) 0
    if v < 2 ^ 64 then some (v, inp.dropWhile Char.isDigit) else none

/-- `separated_list1(sep, f)` then `opt(sep)`; `fuel` bounds the number of items (input length suffices). -/
def pSepList1Opt {α} (sep : P Unit) (f : P α) : Nat → P (List α)
  | 0 => fun _ => none
  | fuel + 1 => fun inp =>
    match f inp with
    | none => none
    | some (x, r) =>
      match sep r with
      | none => some ([x], r)
      | some (_, r') =>
        match pSepList1Opt sep f fuel r' with
        | some (xs, r'') => some (x :: xs, r'')
        | none => some ([x], r')          -- no further item: the separator was the optional trailing one

inductive NpyEntry where
  | descr (e : Endian) (t : NpyTy)
  | fortran (b : Bool)
  | shape (s : List Nat)
deriving Repr, DecidableEq

def pEntrySep : P Unit := pWsSep [':']

def pDescrEntry : P NpyEntry := fun inp =>
  match pTargetString "descr".toList inp with
  | some (_, r) => match pEntrySep r with
    | some (_, r2) => match pDescrValue r2 with
      | some ((e, t), r3) => some (.descr e t, r3)
      | none => none
    | none => none
  | none => none

def pFortranEntry : P NpyEntry := fun inp =>
  match pTargetString "fortran_order".toList inp with
  | some (_, r) => match pEntrySep r with
    | some (_, r2) => match pBool r2 with
      | some (b, r3) => some (.fortran b, r3)
      | none => none
    | none => none
  | none => none

def pShape : P (List Nat) := fun inp =>
  match pTag ['('] inp with
  | some (_, r) => match pSepList1Opt (pWsSep [',']) pU64 (r.length + 1) r with
    | some (s, r2) => match pTag [')'] r2 with
      | some (_, r3) => some (s, r3)
      | none => none
    | none => none
  | none => none

def pShapeEntry : P NpyEntry := fun inp =>
  match pTargetString "shape".toList inp with
  | some (_, r) => match pEntrySep r with
    | some (_, r2) => match pShape r2 with
      | some (s, r3) => some (.shape s, r3)
      | none => none
    | none => none
  | none => none

/-- `alt((descr, fortran_order, shape))`. -/
def pEntry : P NpyEntry := fun inp =>
  match pDescrEntry inp with
  | some r => some r
  | none => match pFortranEntry inp with
    | some r => some r
    | none => pShapeEntry inp

/-- `parse_dict`: `{` space0 entries space0 `}`; anything after the closing brace is ignored. -/
def pDict : P (List NpyEntry) := fun inp =>
  match pTag ['{'] inp with
  | some (_, r) => match pSpace0 r with
    | some (_, r1) => match pSepList1Opt (pWsSep [',']) pEntry (r1.length + 1) r1 with
      | some (es, r2) => match pSpace0 r2 with
        | some (_, r3) => match pTag ['}'] r3 with
          | some (_, r4) => some (es, r4)
          | none => none
        | none => none
      | none => none
    | none => none
  | none => none

structure NpyDict where
  endian : Endian
  ty : NpyTy
  fortran : Bool
  shape : List Nat
deriving Repr, DecidableEq

/-- `HeaderDict::from_str`: the last entry of each kind wins; all three are required. -/
def parseNpyDict (s : List Char) : Option NpyDict :=
  match pDict s with
  | none => none
  | some (es, _) =>
    let d := es.foldl (fun (acc : Option (Endian × NpyTy) × Option Bool × Option (List Nat)) e =>
      match e with
      | .descr en t => (some (en, t), acc.2.1, acc.2.2)
      | .fortran b => (acc.1, some b, acc.2.2)
      | .shape sh => (acc.1, acc.2.1, some sh)) (none, none, none)
    match d with
    | (some (en, t), some f, some sh) => some ⟨en, t, f, sh⟩
    | _ => none

/-! ## reader -/

/-- One value of the given type from exactly `width` bytes, as the binary64 pattern of `x as f64`. -/
def decodeValue (en : Endian) (t : NpyTy) (bytes : List Nat) : Nat :=
  let n := match en with | .little => ofLeBytes bytes | .big => ofBeBytes bytes
  match t with
  | .f8 => n
  | .f4 => f64BitsOfF32Bits n
  | .u1 | .u2 | .u4 | .u8 => f64BitsOfNat false n
  | .i1 => f64BitsOfInt (signedOf 1 n)
  | .i2 => f64BitsOfInt (signedOf 2 n)
  | .i4 => f64BitsOfInt (signedOf 4 n)
  | .i8 => f64BitsOfInt (signedOf 8 n)

/-- The value loop `while !fill_buf()?.is_empty() { read_exact(width) }` on the remaining bytes. -/
def readValues (en : Endian) (t : NpyTy) : Nat → List Nat → Except IoErr (List Nat)
  | 0, _ => .ok []
  | fuel + 1, bytes =>
    if bytes.isEmpty then .ok []
    else if bytes.length < t.width then .error .eof
    else match readValues en t fuel (bytes.drop t.width) with
      | .ok vs => .ok (decodeValue en t (bytes.take t.width) :: vs)
      | .error e => .error e

def allAscii (b : List Nat) : Bool := b.all (· < 128)

/-- `read_array` on a complete byte string: (shape, binary64 patterns). -/
def readNpy (bytes : List Nat) : Except IoErr (List Nat × List Nat) :=
  if bytes.length < 6 then .error .eof
  else if bytes.take 6 ≠ npyMagic then .error .invalid
  else
    let r := bytes.drop 6
    if r.length < 2 then .error .eof
    else
      let lenWidth : Option Nat := match r.getD 0 0 with
        | 1 => some 2 | 2 => some 4 | 3 => some 4 | _ => none
      match lenWidth with
      | none => .error .invalid
      | some w =>
        let r := r.drop 2
        if r.length < w then .error .eof
        else
          let headerLen := ofLeBytes (r.take w)
          let r := r.drop w
          if r.length < headerLen then .error .eof
          else
            let dictBytes := r.take headerLen
            let body := r.drop headerLen
            if !allAscii dictBytes then .error .invalid      -- (valid non-ASCII UTF-8 is not modelled: see DESIGN)
            else match parseNpyDict (bytesToChars dictBytes) with
              | none => .error .invalid
              | some d =>
                if d.fortran then .error .invalid
                else match readValues d.endian d.ty (body.length + 1) body with
                  | .error e => .error e
                  | .ok vals =>
                    if checkedSize d.shape = some vals.length then .ok (d.shape, vals) else .error .invalid

end Sfs

/- Rust functions mirrored in this file beyond those cited above (read by tools/trace_matrix.py):
   core/src/array.rs: read_npy, write_npy; core/src/array/npy/header.rs: from_header_bytes, to_header_bytes, get_read_fn (decoder table: decodeValue), header_len_bytes_len, read_header_len, write_header_len (version-dependent length field); core/src/array/npy/header/parse.rs: dict_sep, entry_sep, shape_sep, whitespace_sep, parse_bool, parse_descr_entry, parse_endian, parse_entry, parse_fortran_order_entry, parse_header_dict, parse_shape, parse_shape_entry, parse_target_string, parse_type, parse_usize, parse_usize_sequence, separated_list1_opt (the p* combinators below, in the grammar's order) -/
