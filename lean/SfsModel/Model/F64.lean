/-
Binary64 / binary32 bit-level helpers over `Nat` (bit patterns) and `Rat`/`Int` (exact values):
little/big-endian assembly, widening f32 → f64, integer → f64 with round-to-nearest-even,
exact rational → nearest binary64. No Lean `Float` anywhere. Core Lean only.
-/
import SfsModel.Model.XR
namespace Sfs

/-- little-endian bytes of `n` (`k` bytes). -/
def leBytes : Nat → Nat → List Nat
  | 0, _ => []
  | k + 1, n => (n % 256) :: leBytes k (n / 256)

/-- value of little-endian bytes. -/
def ofLeBytes : List Nat → Nat
  | [] => 0
  | b :: bs => b + 256 * ofLeBytes bs

def ofBeBytes (l : List Nat) : Nat := ofLeBytes l.reverse

/-- floor(log2 n) for n > 0 (0 for n = 0). -/
def log2Nat (n : Nat) : Nat := Nat.log2 n

/-- round `n / 2^s` to nearest, ties to even. -/
def shiftRoundEven (n s : Nat) : Nat :=
  if s = 0 then n else
  let q := n / 2 ^ s
  let r := n % 2 ^ s
  let half := 2 ^ (s - 1)
  if r > half then q + 1 else if r < half then q else (if q % 2 = 1 then q + 1 else q)

/-- binary64 bit pattern of the integer `(-1)^neg * n` under round-to-nearest-even (`as f64`). -/
def f64BitsOfNat (neg : Bool) (n : Nat) : Nat :=
  if n = 0 then 0 else
  let e := log2Nat n
  let sign := if neg then 2 ^ 63 else 0
  if e ≤ 52 then sign + (1023 + e) * 2 ^ 52 + (n * 2 ^ (52 - e) - 2 ^ 52)
  else
    let m := shiftRoundEven n (e - 52)            -- in [2^52, 2^53]
    if m = 2 ^ 53 then sign + (1023 + e + 1) * 2 ^ 52
    else sign + (1023 + e) * 2 ^ 52 + (m - 2 ^ 52)

/-- two's complement value of `k`-byte pattern `n`. -/
def signedOf (k : Nat) (n : Nat) : Int :=
  if n < 2 ^ (8 * k - 1) then (n : Int) else (n : Int) - (2 ^ (8 * k) : Nat)

def f64BitsOfInt (i : Int) : Nat :=
  if i < 0 then f64BitsOfNat true i.natAbs else f64BitsOfNat false i.natAbs

/-- widen a binary32 pattern to binary64 (`f32 as f64`: exact; NaN payload shifted, quiet bit set as the hardware does). -/
def f64BitsOfF32Bits (b : Nat) : Nat :=
  let sign := (b / 2 ^ 31) % 2
  let e := (b / 2 ^ 23) % 2 ^ 8
  let m := b % 2 ^ 23
  let s64 := sign * 2 ^ 63
  if e = 255 then
    if m = 0 then s64 + 2047 * 2 ^ 52 else s64 + 2047 * 2 ^ 52 + 2 ^ 51 + (m % 2 ^ 22) * 2 ^ 29
  else if e = 0 then
    if m = 0 then s64
    else
      -- subnormal f32: value m * 2^-149, normal in f64
      let l := log2Nat m
      s64 + (1023 - 149 + l) * 2 ^ 52 + (m * 2 ^ (52 - l) - 2 ^ 52)
  else s64 + (e + 896) * 2 ^ 52 + m * 2 ^ 29      -- rebias: e - 127 + 1023

/-- sign bit of a binary64 pattern. -/
def f64Sign (b : Nat) : Bool := (b / 2 ^ 63) % 2 == 1

/-- nearest binary64 (ties to even) of a non-negative rational; overflow gives +inf. Returns the bit pattern. -/
def f64BitsOfRatNonneg (q : Rat) : Nat :=
  if q ≤ 0 then 0 else
  let num := q.num.natAbs
  let den := q.den
  -- find e with 2^e ≤ q < 2^(e+1):  e = floor(log2 (num/den))
  let e0 : Int := (log2Nat num : Int) - (log2Nat den : Int)
  -- candidate may be off by one; normalise
  let ge (e : Int) : Bool := if e ≥ 0 then num ≥ den * 2 ^ e.toNat else num * 2 ^ (-e).toNat ≥ den
  let e : Int := if ge e0 then (if ge (e0 + 1) then e0 + 1 else e0) else e0 - 1
  -- exponent clamp for subnormals
  let eeff : Int := if e < -1022 then -1022 else e
  -- mantissa m = round(q / 2^(eeff - 52))
  let sh : Int := eeff - 52
  let (n2, d2) : Nat × Nat := if sh ≥ 0 then (num, den * 2 ^ sh.toNat) else (num * 2 ^ (-sh).toNat, den)
  let qf := n2 / d2
  let r := n2 % d2
  let m := if 2 * r > d2 then qf + 1 else if 2 * r < d2 then qf else (if qf % 2 = 1 then qf + 1 else qf)
  if e < -1022 then m      -- subnormal (or rounds up to the smallest normal: pattern arithmetic still right)
  else
    let (m, ee) := if m = 2 ^ 53 then (2 ^ 52, eeff + 1) else (m, eeff)
    if ee > 1023 then 2047 * 2 ^ 52
    else ((ee + 1023).toNat) * 2 ^ 52 + (m - 2 ^ 52)

def f64BitsOfRat (q : Rat) : Nat :=
  if q < 0 then 2 ^ 63 + f64BitsOfRatNonneg (-q) else f64BitsOfRatNonneg q

end Sfs
