/-
L2 — code-shaped model of `core/src/spectrum.rs` (marginalize, normalize, project), `spectrum/folded.rs`,
`spectrum/project.rs`, `spectrum/count.rs`, `utils.rs` (hypergeometric pmf over exact binomials), and the
option pipeline of `cli/src/view.rs` / `cli/src/fold.rs`. Generic in the scalar; the driver runs it at `Rat`,
the theorems instantiate a field. Core Lean only.
-/
import SfsModel.Model.Array
namespace Sfs

/-! ## folding (`Folded::from_spectrum` + `into_spectrum`) -/

/-- `Folded::from_spectrum`: `None` marks the lower part. `half` is the scalar `0.5`. -/
def foldOpt {α} [Add α] [Mul α] [OfNat α 0] (half : α) (shape : List Nat) (x : List α) : List (Option α) :=
  let n := size shape
  let total := shape.sum - shape.length          -- saturating_sub after the fix
  let mid := total / 2
  let hasDiag := total % 2 == 0
  (List.range n).map fun i =>
    let rev := n - 1 - i
    let count := indexSumFromFlat shape i
    match compare count mid, hasDiag with
    | .lt, _ | .eq, false => some (x.getD i 0 + x.getD rev 0)
    | .eq, true => some (half * x.getD i 0 + half * x.getD rev 0)
    | .gt, _ => none

/-- `scs.fold().into_spectrum(fill)`. -/
def foldSpectrum {α} [Add α] [Mul α] [OfNat α 0] (half fill : α) (shape : List Nat) (x : List α) : List α :=
  (foldOpt half shape x).map (fun o => o.getD fill)

/-! ## marginalization -/

inductive MargErr where
  | duplicateAxis (axis : Nat)
  | axisOutOfBounds (axis dims : Nat)
  | tooManyAxes (axes dims : Nat)
deriving Repr, DecidableEq

/-- First axis (in list order) that occurs again later in the list. -/
def firstDuplicate : List Nat → Option Nat
  | [] => none
  | a :: rest => if rest.contains a then some a else firstDuplicate rest

/-- `axes.windows(2).all(|w| w[0] <= w[1])`. -/
def isSortedLe : List Nat → Bool
  | a :: b :: rest => decide (a ≤ b) && isSortedLe (b :: rest)
  | _ => true

/-- `axes.sort()` on `usize`: insertion sort (any sort yields the same list of naturals). -/
def insertNat (x : Nat) : List Nat → List Nat
  | [] => [x]
  | y :: ys => if x ≤ y then x :: y :: ys else y :: insertNat x ys

def sortNat : List Nat → List Nat
  | [] => []
  | x :: xs => insertNat x (sortNat xs)

/-- `marginalize_unchecked`: remove `original - removed` for the sorted axes, one `Array::sum` at a time. -/
def marginalizeUnchecked {α} [Add α] [OfNat α 0] (a : Arr α) (axes : List Nat) : Arr α :=
  (axes.zipIdx).foldl (fun sp (p : Nat × Nat) => sp.sumAxis (p.1 - p.2)) a

/-- `Spectrum::marginalize`. -/
def marginalize {α} [Add α] [OfNat α 0] (a : Arr α) (axes : List Nat) : Except MargErr (Arr α) :=
  match firstDuplicate axes with
  | some d => .error (.duplicateAxis d)
  | none =>
    match axes.find? (fun ax => ax ≥ a.shape.length) with
    | some ax => .error (.axisOutOfBounds ax a.shape.length)
    | none =>
      if axes.length ≥ a.shape.length then .error (.tooManyAxes axes.length a.shape.length)
      else if isSortedLe axes then .ok (marginalizeUnchecked a axes)
      else .ok (marginalizeUnchecked a (sortNat axes))

/-- `cli/src/view.rs`: `--marginalize-keep K` is turned into the axes to remove. -/
def keepToRemove (dims : Nat) (keep : List Nat) : List Nat :=
  (List.range dims).filter (fun i => !keep.contains i)

/-! ## normalisation and masking -/

/-- `Spectrum::sum` = `iter().sum::<f64>()` (left fold from zero). -/
def sumList {α} [Add α] [OfNat α 0] (x : List α) : α := x.foldl (· + ·) 0

/-- `Spectrum::normalize`. -/
def normalize {α} [Add α] [Div α] [OfNat α 0] (x : List α) : List α :=
  let s := sumList x
  x.map (· / s)

/-- `--mask-monomorphic` (fixed: `first_mut`/`last_mut`, no-op on an empty spectrum). -/
def maskMonomorphic {α} [OfNat α 0] (x : List α) : List α :=
  match x with
  | [] => []
  | _ :: _ => (x.set 0 0).set (x.length - 1) 0

/-! ## hypergeometric projection -/

/-- Linear-time binomial: `acc_{i+1} = acc_i * (n - i) / (i + 1)` (proved equal to `Nat.choose`). -/
def chooseFast (n k : Nat) : Nat :=
  (List.range k).foldl (fun acc i => acc * (n - i) / (i + 1)) 1

/-- `hypergeometric_pmf(size, successes, draws, observed)` over exact binomials. -/
def hyper {α} [Mul α] [Div α] [NatCast α] [OfNat α 0] (N K n k : Nat) : α :=
  if k > n ∨ k > K ∨ n - k > N - K then 0
  else ((chooseFast K k : Nat) : α) * ((chooseFast (N - K) (n - k) : Nat) : α) / ((chooseFast N n : Nat) : α)

inductive ProjErr where
  | empty
  | invalidProjection (dimension fromN toN : Nat)
  | unequalDimensions (fromD toD : Nat)
  | zero
deriving Repr, DecidableEq

/-- `Count::try_from_shape`: every entry minus one, `None` if an entry is zero. -/
def countOfShape : List Nat → Option (List Nat)
  | [] => some []
  | v :: s => if v = 0 then none else (countOfShape s).map (fun c => (v - 1) :: c)

/-- First dimension where `from < to`. -/
def firstSmaller : List Nat → List Nat → Nat → Option (Nat × Nat × Nat)
  | f :: fs, t :: ts, i => if f < t then some (i, f, t) else firstSmaller fs ts (i + 1)
  | _, _, _ => none

/-- `Projection::from_shapes` + `Projection::new`: validation, returns the two count vectors. -/
def projectionNew (fromShape toShape : List Nat) : Except ProjErr (List Nat × List Nat) :=
  match countOfShape fromShape, countOfShape toShape with
  | some f, some t =>
    if f.length = t.length then
      match firstSmaller f t 0 with
      | some (d, a, b) => .error (.invalidProjection d a b)
      | none => .ok (f, t)
    else if f.length = 0 then .error .empty
    else .error (.unequalDimensions f.length t.length)
  | _, _ => .error .zero

/-- `ProjectIter::project_value`: product over axes of the pmf. -/
def projectValue {α} [Mul α] [Div α] [NatCast α] [OfNat α 0] [OfNat α 1]
    : (projectFrom from_ projectTo to : List Nat) → α
  | n :: ns, k :: ks, m :: ms, t :: ts => (hyper n k m t : α) * projectValue ns ks ms ts
  | _, _, _, _ => 1

/-- One step of `ProjectIter::impl_next_rec` after the first value, lists last-axis-first:
    `to[axis] += 1; if to[axis] <= project_to[axis] … else if axis > 0 { to[axis] = 0; recurse }`. -/
def projStepR : (projectToR toR : List Nat) → Option (List Nat)
  | m :: ms, t :: ts =>
      if t + 1 ≤ m then some ((t + 1) :: ts)
      else match projStepR ms ts with
        | some ts' => some (0 :: ts')
        | none => none
  | _, _ => none

/-- All values the `ProjectIter` yields, in order (fuel = number of values still allowed). -/
def projectIterGo {α} [Mul α] [Div α] [NatCast α] [OfNat α 0] [OfNat α 1]
    (projectFrom from_ projectTo : List Nat) : Nat → List Nat → List α
  | 0, _ => []
  | fuel + 1, toR =>
    projectValue projectFrom from_ projectTo toR.reverse ::
      (match projStepR projectTo.reverse toR with
       | some toR' => projectIterGo projectFrom from_ projectTo fuel toR'
       | none => [])

/-- `Projected` iterator collected: starts from the zeroed `to_buf`. -/
def projectIter {α} [Mul α] [Div α] [NatCast α] [OfNat α 0] [OfNat α 1]
    (projectFrom from_ projectTo : List Nat) : List α :=
  projectIterGo projectFrom from_ projectTo (size (projectTo.map (· + 1))) (List.replicate projectTo.length 0)

/-- `Projected::add_unchecked` with weight: `to[i] += p[i] * weight` over the zip. -/
def addProjected {α} [Add α] [Mul α] (acc : List α) (p : List α) (w : α) : List α :=
  List.zipWith (fun a q => a + q * w) acc p ++ acc.drop p.length

/-- `Spectrum::project`. -/
def project {α} [Add α] [Mul α] [Div α] [NatCast α] [OfNat α 0] [OfNat α 1]
    (a : Arr α) (toShape : List Nat) : Except ProjErr (Arr α) :=
  match projectionNew a.shape toShape with
  | .error e => .error e
  | .ok (pf, pt) =>
    let zero : List α := List.replicate (size toShape) 0
    let data := (List.range a.data.length).foldl
      (fun acc f => addProjected acc (projectIter pf (indexFromFlat a.shape f) pt) (a.data.getD f 0)) zero
    .ok ⟨data, toShape⟩

/-- `i ↦ 2*i+1` saturating at `usize::MAX` (`--project-individuals`). -/
def individualsToShape (is : List Nat) : List Nat :=
  is.map (fun i => min (min (i * 2) (2 ^ 64 - 1) + 1) (2 ^ 64 - 1))

/-! ## `sfs view` option pipeline -/

inductive ViewErr where
  | marg (e : MargErr)
  | proj (e : ProjErr)
deriving Repr, DecidableEq

structure ViewOpts where
  remove : Option (List Nat) := none
  keep : Option (List Nat) := none
  projectShape : Option (List Nat) := none
  projectIndividuals : Option (List Nat) := none
  mask : Bool := false
  normalize : Bool := false
deriving Repr

/-- `View::run` between reading and writing: marginalize → project → mask → normalize. -/
def viewRun {α} [Add α] [Mul α] [Div α] [NatCast α] [OfNat α 0] [OfNat α 1]
    (o : ViewOpts) (a : Arr α) : Except ViewErr (Arr α) :=
  let margAxes : Option (List Nat) := match o.keep, o.remove with
    | some k, _ => some (keepToRemove a.shape.length k)
    | none, some r => some r
    | none, none => none
  let s1 : Except ViewErr (Arr α) := match margAxes with
    | some axes => match marginalize a axes with
      | .ok b => .ok b
      | .error e => .error (.marg e)
    | none => .ok a
  match s1 with
  | .error e => .error e
  | .ok b =>
    let target : Option (List Nat) := match o.projectIndividuals, o.projectShape with
      | some is, _ => some (individualsToShape is)
      | none, some sh => some sh
      | none, none => none
    let s2 : Except ViewErr (Arr α) := match target with
      | some t => match project b t with
        | .ok c => .ok c
        | .error e => .error (.proj e)
      | none => .ok b
    match s2 with
    | .error e => .error e
    | .ok c =>
      let d := if o.mask then maskMonomorphic c.data else c.data
      let e := if o.normalize then normalize d else d
      .ok ⟨e, c.shape⟩

end Sfs

/- Rust functions mirrored in this file beyond those cited above (read by tools/trace_matrix.py):
   core/src/spectrum.rs: marginalize_axis (one step of marginalize), from_range, from_vec, from_zeros (constructors: `Arr` literals), into_state_unchecked (typestate change only), add_assign; core/src/spectrum/project.rs: from_shape (countOfShape), into_weighted, next (projectIterGo), project_unchecked (projectIter for one source index) -/
