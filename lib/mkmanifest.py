#!/usr/bin/env python3
"""Regenerates /verif/MANIFEST.json from lib/props.py and lib/claims.py (keeps it schema-valid at all times)."""
import json, os, sys
sys.path.insert(0, os.path.dirname(os.path.abspath(__file__)))
from props import PROPS
from claims import CLAIMS, NOT_APPLICABLE, HOOK_COMMITS

VERIF = os.path.dirname(os.path.dirname(os.path.abspath(__file__)))
checks = []
CLAIMS = {k: v for k, v in CLAIMS.items() if not v.get('pending')}
for pid in sorted(CLAIMS):
    c = CLAIMS[pid]
    assert pid in PROPS, pid
    checks.append({
        "property_id": pid,
        "quick_cmd": f"./check {pid} --tier quick",
        "thorough_cmd": f"./check {pid} --tier thorough",
        "evidence_file": f"/verif/evidence/{pid}.json",
        "replay_cmd_template": f"./check {pid} --replay {{path}}",
        "engine": "lean-model+correspondence",
        "level_claimed": {"category": c.get("category", "proof"), "text": c["text"], "design_ref": c.get("design_ref", "DESIGN.md §5 " + pid)},
        "level_note": c["note"],
        "technique": c.get("technique", "Lean 4 theorems about a hand-written executable model (kernel-checked, axioms audited) + differential correspondence check model vs implementation"),
    })
props = [json.loads(l)["id"] for l in open(os.path.join(VERIF, "properties.jsonl"))]
na = [{"property_id": p, "reason": NOT_APPLICABLE.get(p, "check not built yet in this revision; planned (DESIGN.md §9) — not claimed until its model, theorems and correspondence exist")}
      for p in props if p not in CLAIMS]
m = {
    "version": 1,
    "setup_cmd": "./setup.sh",
    "hooks": {
        "guard": "cargo feature `verif` on crate sfs-core (off by default)",
        "enable": "the harness depends on sfs-core by path with features = [\"verif\"]; the sfs binary is built without it",
        "baseline_off_cmd": "cd /repo && cargo test --workspace --no-fail-fast --offline",
        "source_commits": HOOK_COMMITS,
        "add_only": True,
    },
    "engines": [{
        "name": "lean-model+correspondence", "path": "/verif/check",
        "serves_properties": sorted(CLAIMS),
        "kind_free_text": "Lean 4.33 proofs over a hand-written model (lean/SfsModel), tied to /repo by a Rust harness (harness/) that runs the real code and a compiled Lean driver (lean/Driver.lean) that evaluates the model on the same inputs in exact rational arithmetic",
    }],
    "checks": checks,
    "not_applicable": na,
    "notes": "Every check rebuilds /repo (cargo, offline) and the harness from the working tree, re-checks the property's Lean theorems with lake, audits their axioms, and runs the correspondence. known_findings.json lists genuine defects (fixed: entries suppress nothing). See DESIGN.md.",
}
json.dump(m, open(os.path.join(VERIF, "MANIFEST.json"), "w"), indent=1)
try:
    import jsonschema
    jsonschema.validate(m, json.load(open("/root/.vp/MANIFEST.schema.json")))
    print("MANIFEST.json valid;", len(checks), "checks,", len(na), "not claimed")
except ImportError:
    print("MANIFEST.json written (jsonschema not available)")
