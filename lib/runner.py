import sys, os, re, json, time, subprocess, hashlib, fcntl, glob

VERIF = os.path.dirname(os.path.dirname(os.path.abspath(__file__)))
LEAN = os.path.join(VERIF, "lean")
WORK = os.path.join(VERIF, "work")
REPO = os.environ.get("SFS_REPO", "/repo")   # development only: a scratch copy of the repository (the registered commands use /repo)
ALT = "" if REPO == "/repo" else "-alt"    # development sweeps build into their own target directories (cargo does not re-link an up-to-date binary when two source trees share one)
ALLOWED_AXIOMS = {"propext", "Classical.choice", "Quot.sound"}
FORBIDDEN = re.compile(r"\bsorry\b|\badmit\b|^\s*axiom\s|native_decide|bv_decide|implemented_by|\bunsafe\s|maxHeartbeats\s+0")

from props import PROPS, TRUSTED_COMMON

def sh(cmd, cwd=None, env=None, timeout=None, stdin=None):
    e = dict(os.environ)
    e.update({"CARGO_NET_OFFLINE": "true", "RUST_BACKTRACE": "0", "SFS_ALLOW_STDIN": "1"})
    if env: e.update(env)
    p = subprocess.run(cmd, cwd=cwd, env=e, stdout=subprocess.PIPE, stderr=subprocess.STDOUT, timeout=timeout,
                       input=stdin, shell=isinstance(cmd, str))
    return p.returncode, p.stdout.decode("utf-8", "replace")

class Lock:
    def __init__(self, name): self.path = os.path.join(WORK, name)
    def __enter__(self):
        os.makedirs(WORK, exist_ok=True)
        self.f = open(self.path, "w"); fcntl.flock(self.f, fcntl.LOCK_EX); return self
    def __exit__(self, *a): fcntl.flock(self.f, fcntl.LOCK_UN); self.f.close()

def strip_comments(src):
    src = re.sub(r"/-.*?-/", lambda m: "\n" * m.group(0).count("\n"), src, flags=re.S)
    return "\n".join(l.split("--")[0] for l in src.split("\n"))

def import_closure(roots):
    seen, todo = [], list(roots)
    while todo:
        p = todo.pop()
        if p in seen or not os.path.exists(p): continue
        seen.append(p)
        for m in re.finditer(r"^import\s+(SfsModel(?:\.\w+)+)", open(p).read(), flags=re.M):
            todo.append(os.path.join(LEAN, *m.group(1).split(".")) + ".lean")
    return seen

def lean_obligations(pid, tier, log):
    """returns (obligations, discharged, problems[list of str], checker_cmd)"""
    cfg = PROPS[pid]
    thms = cfg["theorems"]
    mods = cfg.get("modules", [f"SfsModel.Props.{pid}"])
    problems = []
    if os.environ.get("VERIF_DEV_SKIP_LEAN") and REPO != "/repo":
        # development only (scratch repository, no evidence written): correspondence alone, while proofs are being edited
        return thms, [], ["development run: theorems not checked"], "skipped"
    checker = "cd lean && lake build %s sfsmodel && lake env lean <audit: #print axioms per theorem>" % " ".join(cfg.get("modules", [f"SfsModel.Props.{pid}"]))
    with Lock("lake.lock"):
        # source tie for constants: regenerate Generated/SourceConsts.lean from the repository as it is now (Props/Tie.lean)
        rc0, out0 = sh([sys.executable, os.path.join(VERIF, "tools", "extract_consts.py"), REPO], timeout=120)
        missing = [l.split()[0] for l in out0.split("\n") if l.strip().endswith("NOT-FOUND")]
        if rc0 != 0: problems.append("tools/extract_consts.py failed: " + out0[-300:])
        elif missing: print("  note: constants no longer located in the source (tie not checked for them): " + ", ".join(missing))
        rc, out = sh(["lake", "build"] + mods + ["sfsmodel"], cwd=LEAN, timeout=3600)
    log.append(out[-4000:])
    sorry_lines = re.findall(r"(\S+\.lean):(\d+):\d+: declaration uses `sorry`", out)
    if rc != 0:
        tie = " — Props/Tie.lean no longer checks: a constant in the repository's source differs from the value the model is built on (" + "; ".join(l.strip() for l in out0.split("\n") if l.strip())[:300] + ")" if "SfsModel.Props.Tie" in out and "Tie.lean" in out else ""
        problems.append(f"lake build {' '.join(mods)} failed (rc={rc})" + tie)
        return len(thms), 0, problems, checker
    # source hygiene over the import closure of this property's theorem file and the driver (comment text discarded)
    for path in import_closure([os.path.join(LEAN, *m.split(".")) + ".lean" for m in mods] + [os.path.join(LEAN, "Driver.lean")]):
        for i, line in enumerate(strip_comments(open(path).read()).split("\n")):
            if FORBIDDEN.search(line):
                problems.append(f"forbidden token in {os.path.relpath(path, LEAN)}:{i+1}: {line.strip()[:80]}")
    # axiom audit
    os.makedirs(os.path.join(WORK, "audit"), exist_ok=True)
    audit = os.path.join(WORK, "audit", f"{pid}.lean")
    with open(audit, "w") as f:
        for m in mods: f.write(f"import {m}\n")
        for t in thms: f.write(f"#print axioms Sfs.{pid}.{t}\n")
    rc, out = sh(["lake", "env", "lean", audit], cwd=LEAN, timeout=1800)
    log.append(out[-4000:])
    discharged = 0
    for t in thms:
        m = re.search(r"'Sfs\.%s\.%s' (depends on axioms: \[([^\]]*)\]|does not depend on any axioms)" % (pid, re.escape(t)), out)
        if not m:
            problems.append(f"theorem Sfs.{pid}.{t} missing or not checkable"); continue
        axs = set(a.strip() for a in (m.group(2) or "").split(",") if a.strip())
        bad = axs - ALLOWED_AXIOMS
        if bad: problems.append(f"theorem Sfs.{pid}.{t} depends on {sorted(bad)}")
        else: discharged += 1
    if tier == "thorough":
        rc, out = sh(["lake", "env", "leanchecker"] + mods, cwd=LEAN, timeout=3600)
        log.append("leanchecker rc=%d %s" % (rc, out[-1000:]))
        checker += " && lake env leanchecker " + " ".join(mods)
        if rc != 0: problems.append("leanchecker rejected SfsModel.Props.%s" % pid)
    return len(thms), discharged, problems, checker

def build_rust(log):
    problems = []
    with Lock("cargo.lock"):
        rc, out = sh(["cargo", "build", "--offline", "--manifest-path", os.path.join(REPO, "Cargo.toml"), "-p", "sfs-cli",
                      "--target-dir", os.path.join(WORK, "target-repo" + ALT)], timeout=3600)
        log.append(out[-3000:])
        if rc != 0: problems.append("cargo build of /repo (sfs-cli) failed:\n" + out[-1500:])
        lock = os.path.join(VERIF, "harness", "Cargo.lock")
        if not os.path.exists(lock):
            import shutil; shutil.copy(os.path.join(REPO, "Cargo.lock"), lock)
        manifest = os.path.join(VERIF, "harness", "Cargo.toml")
        if REPO != "/repo":
            # development sweeps over a scratch copy: the harness must link that copy's sfs-core, not /repo/core
            alt = os.path.join(WORK, "harness-alt"); os.makedirs(alt, exist_ok=True)
            open(os.path.join(alt, "Cargo.toml"), "w").write(open(manifest).read().replace('path = "/repo/core"', 'path = "%s/core"' % REPO))
            import shutil; shutil.copy(lock, os.path.join(alt, "Cargo.lock"))
            if not os.path.islink(os.path.join(alt, "src")): os.symlink(os.path.join(VERIF, "harness", "src"), os.path.join(alt, "src"))
            manifest = os.path.join(alt, "Cargo.toml")
        rc, out = sh(["cargo", "build", "--offline", "--manifest-path", manifest,
                      "--target-dir", os.path.join(WORK, "target-harness" + ALT)], timeout=3600)
        log.append(out[-3000:])
        if rc != 0: problems.append("harness no longer builds against /repo/core (feature verif):\n" + out[-1500:])
    return problems

HARNESS = os.path.join(WORK, "target-harness" + ALT, "debug", "sfs-harness")
DRIVER = os.path.join(LEAN, ".lake", "build", "bin", "sfsmodel")

def run_correspondence(pid, tier, seed, replay=None):
    """returns (lines, verdicts, problems)"""
    problems = []
    env = {"SFS_BIN": os.path.join(WORK, "target-repo" + ALT, "debug", "sfs"), "VERIF_WORK": WORK}
    chunks = []
    if replay:
        rc, out = sh([HARNESS, "eval", "x", tier, str(seed)], env=env, stdin=open(replay, "rb").read(), timeout=7200)
        if rc != 0: problems.append(f"harness eval failed rc={rc}: {out[-500:]}")
        chunks.append(out)
    else:
        corpus = sorted(glob.glob(os.path.join(VERIF, "corpus", pid, "*.case")))
        if corpus:
            data = b"".join(open(c, "rb").read() for c in corpus)
            rc, out = sh([HARNESS, "eval", "x", tier, str(seed)], env=env, stdin=data, timeout=7200)
            if rc != 0: problems.append(f"harness eval (corpus) failed rc={rc}: {out[-500:]}")
            chunks.append(out)
        if PROPS[pid].get("model_emitted"):
            # requests whose input bytes the model's own encoders produce (`sfsmodel --emit`), evaluated by the implementation
            rc, data = sh([DRIVER, "--emit", str(seed)], timeout=600, stdin=b"")
            if rc != 0 or "\t" not in data: problems.append(f"model driver --emit failed rc={rc}: {data[-300:]}")
            else:
                rc, out = sh([HARNESS, "eval", "x", tier, str(seed)], env=env, stdin=data.encode(), timeout=7200)
                if rc != 0: problems.append(f"harness eval (model-emitted requests) failed rc={rc}: {out[-500:]}")
                chunks.append(out)
        rc, out = sh([HARNESS, "run", pid.lower(), tier, str(seed)], env=env, timeout=14400)
        if rc != 0: problems.append(f"harness run failed rc={rc}: {out[-500:]}")
        chunks.append(out)
    lines = [l for l in "".join(chunks).split("\n") if "\t=>\t" in l]
    if not lines:
        problems.append("harness produced no cases")
        return [], [], problems
    rc, out = sh([DRIVER], stdin=("\n".join(lines) + "\n").encode(), timeout=14400)
    verdicts = [v for v in out.split("\n") if v]
    if rc != 0 or len(verdicts) != len(lines):
        problems.append(f"model driver failed (rc={rc}, {len(verdicts)} verdicts for {len(lines)} lines): {out[-300:]}")
    return lines, verdicts, problems

def source_drift(pid):
    """files among the property's anchors (and the other transcribed sources) whose content differs from the baseline the model was validated against"""
    try:
        base = json.load(open(os.path.join(VERIF, "lib", "source_baseline.json")))["files"]
        anchors = []
        for l in open(os.path.join(VERIF, "properties.jsonl")):
            p = json.loads(l)
            if p["id"] == pid: anchors = p["anchors"]["files"]
        drift = []
        for f, h in base.items():
            path = os.path.join(REPO, f)
            cur = hashlib.sha256(open(path, "rb").read()).hexdigest() if os.path.exists(path) else "missing"
            if cur != h: drift.append(f + (" (anchor of this property)" if f in anchors else ""))
        inv = json.load(open(os.path.join(VERIF, "lib", "source_baseline.json"))).get("functions", {})
        for f in sorted(set(list(inv) + [os.path.relpath(x, REPO) for x in glob.glob(REPO + "/core/src/**/*.rs", recursive=True) + glob.glob(REPO + "/cli/src/**/*.rs", recursive=True)])):
            path = os.path.join(REPO, f)
            if not os.path.exists(path): drift.append(f + " (file removed)"); continue
            src = open(path).read(); i = src.find("#[cfg(test)]"); body = src if i < 0 else src[:i]
            cur = set(re.findall(r"^\s*(?:pub(?:\([a-z]+\))?\s+)?(?:const\s+)?fn\s+([a-zA-Z0-9_]+)", body, flags=re.M))
            old_f = set(inv.get(f, []))
            for n in sorted(cur - old_f): drift.append(f"{f}: fn {n} added (not covered by the model)")
            for n in sorted(old_f - cur): drift.append(f"{f}: fn {n} removed")
        return sorted(set(drift))
    except Exception as e:
        return ["baseline unavailable: %s" % e]

def load_known():
    p = os.path.join(VERIF, "known_findings.json")
    if not os.path.exists(p): return []
    return [k for k in json.load(open(p)).get("findings", []) if k.get("status") == "known"]

def main(argv):
    if not argv or argv[0] not in PROPS:
        print("usage: ./check <%s> [--tier quick|thorough] [--seed N] [--replay FILE]" % "|".join(sorted(PROPS))); return 2
    pid = argv[0]
    tier = os.environ.get("VERIF_TIER", "quick"); seed = int(os.environ.get("VERIF_SEED", "1")); replay = None
    i = 1
    while i < len(argv):
        if argv[i] == "--tier": tier = argv[i+1]; i += 2
        elif argv[i] == "--seed": seed = int(argv[i+1]); i += 2
        elif argv[i] == "--replay": replay = argv[i+1]; i += 2
        else: print("unknown argument", argv[i]); return 2
    if tier not in ("quick", "thorough"): tier = "quick"
    t0 = time.time()
    cfg = PROPS[pid]
    log = []
    os.makedirs(os.path.join(WORK, "replays"), exist_ok=True)
    obligations, discharged, proof_problems, checker = lean_obligations(pid, tier, log)
    build_problems = build_rust(log)
    lines, verdicts, run_problems = ([], [], [])
    if not any("harness no longer builds" in p for p in build_problems):
        lines, verdicts, run_problems = run_correspondence(pid, tier, seed, replay)
    # classify
    mismatches, badlines, differs, tags = [], [], [], {}
    nontriv = set(); distinct = set()
    nt_re = re.compile(cfg["nontrivial"])
    for l, v in zip(lines, verdicts):
        req = l.split("\t=>\t")[0]
        if v.startswith("ok\t"):
            tag = v[3:]
            tags[tag] = tags.get(tag, 0) + 1
            distinct.add(req)
            if nt_re.search(tag): nontriv.add(req)
        elif v.startswith("MISMATCH"): mismatches.append((l, v))
        elif v.startswith("DIFFERS"): differs.append((l, v))
        else: badlines.append((l, v))
    known = [k for k in load_known() if k["property"] == pid]
    new_mis = []
    known_hit = {}
    for l, v in mismatches:
        hit = None
        for k in known:
            if re.search(k["match"], l): hit = k; break
        if hit: known_hit.setdefault(hit["id"], (hit, l))
        else: new_mis.append((l, v))
    if replay:
        for l, v in zip(lines, verdicts): print(l[:2000]); print("   ->", v[:2000])
    for k in known:
        hit = k["id"] in known_hit
        print(f"KNOWN-FINDING: property={pid} {k['id']} {k['what']}" + ("" if hit else " [not triggered by this run's inputs]"))
    violation = None
    if new_mis or badlines:
        bad = sorted(new_mis + badlines, key=lambda lv: len(lv[0]))[:5]
        h = hashlib.sha1(bad[0][0].encode()).hexdigest()[:10]
        path = os.path.join(WORK, "replays", f"{pid}-{h}.case")
        with open(path, "w") as f:
            f.write(f"# property {pid}: implementation and Lean model disagree (model = spec by the refinement theorems); replay with ./check {pid} --replay {path}\n")
            for l, v in bad:
                f.write("# " + v[:1500].replace("\n", " ") + "\n")
                f.write(l.split("\t=>\t")[0] + "\n")
        violation = (path, "")
    if differs and violation is None:
        run_problems.append("correspondence no longer checks on %d inputs where the property itself still holds (implementation and model both reject, with different error kinds), e.g. %s  -> %s" % (len(differs), differs[0][0].split("\t=>\t")[0][:200], differs[0][1][:120]))
    if violation is not None: pass
    elif proof_problems or build_problems or run_problems:
        # an obligation or the correspondence no longer checks: search the implementation for a concrete failing input with
        # further seeds (and the thorough generators where they are quick) before reporting without one
        found = None
        if not replay and not any("harness no longer builds" in p for p in build_problems) and not any("model driver failed" in p or "lake build" in p for p in run_problems + proof_problems[:0]):
            searches = [("quick", seed + 1), ("quick", seed + 2), ("quick", seed + 3)]
            if tier == "quick" and pid not in ("C03", "C06", "C12", "C17"): searches.append(("thorough", seed))
            for (t2, s2) in searches:
                try:
                    l2, v2, _ = run_correspondence(pid, t2, s2)
                except Exception:
                    break
                bad2 = [(l, v) for l, v in zip(l2, v2) if not v.startswith("ok\t") and not v.startswith("DIFFERS") and not any(re.search(k["match"], l) for k in known)]
                if bad2:
                    found = sorted(bad2, key=lambda lv: len(lv[0]))[:5]; break
        if found:
            h = hashlib.sha1(found[0][0].encode()).hexdigest()[:10]
            path = os.path.join(WORK, "replays", f"{pid}-{h}.case")
            with open(path, "w") as f:
                f.write(f"# property {pid}: an obligation no longer checks and the witness search found an input on which implementation and model disagree; replay with ./check {pid} --replay {path}\n")
                for p in proof_problems + build_problems + run_problems: f.write("# " + p[:300].replace("\n", " ") + "\n")
                for l, v in found:
                    f.write("# " + v[:1500].replace("\n", " ") + "\n")
                    f.write(l.split("\t=>\t")[0] + "\n")
            violation = (path, "")
    if violation is None and (proof_problems or build_problems or run_problems):
        path = os.path.join(WORK, "replays", f"{pid}-unchecked.txt")
        with open(path, "w") as f:
            f.write(f"# property {pid}: no longer shown to hold; no failing input found by the correspondence run ({len(lines)} cases agreed)\n")
            for p in proof_problems: f.write("theorem/obligation: " + p + "\n")
            for p in build_problems + run_problems: f.write("correspondence: " + p + "\n")
        violation = (path, " no-failing-input-found")
    wall = time.time() - t0
    drift = source_drift(pid)
    if drift: print("  note: transcribed sources differ from the validated baseline (not a violation by itself): " + ", ".join(drift)[:400])
    samples = []
    step = max(1, len(lines) // 6)
    for l in lines[::step][:6]: samples.append(l[:400])
    ev = {
        "property_id": pid, "tier": tier, "seed": seed, "level": "proof",
        "coverage": {
            "obligations": obligations, "discharged": discharged, "checker_cmd": checker,
            "trusted_base": TRUSTED_COMMON + cfg.get("trusted_extra", []),
            "theorems": ["Sfs.%s.%s" % (pid, t) for t in cfg["theorems"]],
            "programs": 1, "disagreements_checked": len(lines),
            "evaluations": len(lines), "distinct_cases": len(distinct), "distinct_nontrivial": len(nontriv),
            "rule": cfg["rule"], "exhaustive": bool(cfg.get("exhaustive", False)),
            "branch_histogram": dict(sorted(tags.items())),
            "mismatches": len(mismatches), "model_only_disagreements": len(differs), "known_findings_hit": sorted(known_hit),
            "source_drift": drift,
            "samples": samples,
            "correspondence_only_clauses": cfg.get("correspondence_only", []),
        },
        "assumptions": cfg.get("assumptions", []),
        "wall_s": round(wall, 2),
        "violations": 0 if violation is None else max(1, len(new_mis)),
    }
    if not replay and REPO == "/repo":      # development sweeps over a scratch copy never write evidence
        os.makedirs(os.path.join(VERIF, "evidence"), exist_ok=True)
        with open(os.path.join(VERIF, "evidence", f"{pid}.json"), "w") as f: json.dump(ev, f, indent=1)
    with open(os.path.join(WORK, f"{pid}.log"), "w") as f: f.write("\n=====\n".join(log))
    print(f"{pid}: theorems {discharged}/{obligations} discharged; correspondence {len(lines)} cases, {len(mismatches)} mismatches, "
          f"{len(nontriv)} distinct non-trivial; {wall:.1f}s")
    for p in proof_problems + build_problems + run_problems: print("  problem:", p[:600])
    if violation:
        print(f"VIOLATION property={pid} replay={violation[0]}{violation[1]}")
        return 1
    return 0
