"""What MANIFEST.json claims per property (text in my own words)."""
HOOK_COMMITS = ["20240c9"]
NOT_APPLICABLE = {}
NOTE_COMMON = ("Trusted: Lean kernel + axioms {propext, Classical.choice, Quot.sound}; the hand-written model as a faithful transcription "
               "(validated by the correspondence run on every check, bounded by its generators); harness, driver decoding and python orchestration.")
CLAIMS = {
    "C19": dict(
        text="Unbounded Lean theorems about the code-shaped model of Array/View/iterators (flat<->multi-index bijection, get, iter_indices, get_axis bounds, "
             "axis-view iterator = odometer invariant for every shape/axis/position/call history incl. past exhaustion, exact len, AxisIter, Array::sum = sum of views); "
             "model tied to the Rust code by call-history comparison, exhaustive on all shapes in the bound.",
        note=NOTE_COMMON + " Element type in the correspondence is u64/f64; zero-length axes are outside the property and not explored."),
    "C05": dict(
        text="Unbounded Lean theorems over any characteristic-0 field: fold_spec (three-way rule via the flat mirror n-1-i), fold_mass, fold_idem, fold_polarity for every shape; "
             "model (transcribed Folded::from_spectrum/into_spectrum) compared exactly with the implementation on dyadic data incl. NaN/inf and all four fills.",
        note=NOTE_COMMON + " f64 evaluation is outside the theorems; the correspondence uses values whose binary64 sums/halves are exact. CLI fill mapping is checked once the text model exists (C07). Spectra of 65537-262144 entries (`c05.big`) are beyond the list-based model: there the implementation's output is held against the statements of fold_mass / fold_spec / fold_idem / reverse_is_mirror (consequences checked on the implementation, not a model comparison)."),
    "C04": dict(
        text="Unbounded Lean theorems over any commutative additive monoid: marginalize_eq_spec (for every valid axis list in any order the result is the sum over the removed axes, "
             "remaining axes in original order: the sort + `original - removed` shift is proved correct for any number of axes and unequal lengths), permutation invariance, "
             "stepwise = joint, mass, keep = remove complement, the three errors in the code's order, and marginal_is_spectrum (the marginal of a call set's spectrum is the spectrum of the same sites with the removed populations ignored); model compared exactly with Spectrum::marginalize on all subsets x all orders of exhaustive small shapes.",
        note=NOTE_COMMON + " The create/marginalize relation is stated with the create model (C01/C11 theorems) and explored through the CLI there; f64 summation order is outside the theorems (integer data is used so sums are exact)."),
    "C13": dict(
        text="Lean theorems: view_eq_chain (any option combination = four chained single-option runs in the order marginalize > project > mask > normalize), mask_spec "
             "(exactly the all-zero and all-maximum entries), normalize_spec (sums to one, ratios preserved), view_noop; the pipeline model (transcribed View::run) is compared with the real "
             "binary for all 16 option subsets, single vs chained through npy pipes, npy and text output.",
        note=NOTE_COMMON + " Lossless npy in between is C07/C15's theorem; binary64 evaluation of projection/normalisation is compared within 2^-30 relative, not proved. clap's option parsing is exercised, not modelled."),
    "C03": dict(
        text="Unbounded Lean theorems over any characteristic-0 field: project_eq_spec (the odometer + weighted accumulation computes y[t] = sum_f x[f] prod_j Hypergeom(t_j; n_j, f_j, m_j) for any number of axes), "
             "hyper_sum_one (Vandermonde), project_mass, project_nonneg, project_id, hyper_compose / project_project (two steps = direct), project_marginalize_comm (projection commutes with marginalization), hyper_le_one / projectValue_le_one / project_le_mass (every coefficient lies in [0, 1] at every size, every projected entry of a non-negative spectrum is at most the input mass: the exact-arithmetic content of the finiteness clause), and the validation logic; the model is compared with "
             "Spectrum::project on all admissible targets of exhaustive small shapes, on whole operator rows at 400-4000 chromosomes, and with hypergeometric_pmf at sizes up to 5000 chromosomes (exact rational reference).",
        note=NOTE_COMMON + " Partial clause: finiteness / accuracy of the binary64 evaluation at thousands of chromosomes is explored by coefficient probes (exact reference, 2^-30 relative), not proved."),
    "C01": dict(
        text="Unbounded Lean theorems: the stateful site reader equals a pure per-record specification (C11), and without projection entry k of the created spectrum is exactly the number of records that are complete "
             "on the selected samples with per-population ALT counts k (run_eq_spec), the shape rule, in-bounds of every counted index, irrelevance of unselected columns, zero contribution of incomplete records; "
             "model compared with the real site reader in-process (exhaustive small scope + random) and with `sfs create` stdout byte for byte.",
        note=NOTE_COMMON + " VCF/BCF parsing (noodles) is exercised through generated files, not modelled; the model starts at genotype results per column."),
    "C02": dict(
        text="Lean theorems: site classification by called totals vs target, contribution = product of hypergeometric pmfs, the boundary t = m equals the degenerate hypergeometric, output = sum of contributions with shape m+1, "
             "-p i = --project-shape 2i+1, the builder's three errors in order, and project-after-create = create-with-projection for complete data; compared in-process (exhaustive 2-population grid, cohorts up to 600/3000 samples) "
             "and through the CLI at several precisions against exact rational values.",
        note=NOTE_COMMON + " Partial clause: the binary64 evaluation of the pmf and of the sums is compared within 2^-30 relative (plus half a printed unit for text), not proved."),
    "C08": dict(
        text="Lean theorems: classify_spec (total and exact three-way classification, independent of phasing), any non-diploid genotype is a ploidy error, the column loop aborts iff a selected column has one and the run then "
             "fails naming contig:pos, unselected columns are ignored, and the GT grammar parses every string it generates; every GT string of the finite alphabet is run through the VCF and the BCF path of the real binary.",
        note=NOTE_COMMON + " noodles' GT parsing is compared with the model's grammar on the enumerated alphabet, not modelled internally. A wholly missing GT '.' counts as missing (fix b7debed)."),
    "C09": dict(
        text="Lean theorems: population ids = first appearance of labels, axis length 2n+1, sites invariant under permuting input columns, invariant under reordering list entries that keep the label order, "
             "`--samples` and `--samples-file` spellings parse to the same list, empty list / unknown sample are errors; all transformations executed on the real binary and compared with the model.",
        note=NOTE_COMMON + " The axis permutation induced by reordering labels is checked by correspondence (the model recomputes ids); no separate transposition theorem."),
    "C10": dict(
        text="Lean theorems: every counted site has weight exactly one (unit entry or product of hypergeometric distributions), conservation mass + skipped = records, a run fails exactly at the first stopping record "
             "(strict: first skipped site or earlier genotype error) and strict = non-strict otherwise, the CLI writes stdout iff the run succeeded, summary line iff skipped > 0; faults injected at every stream position on the real binary.",
        note=NOTE_COMMON + " The contig:pos reported for a corrupt record line comes from noodles' reader state and is not compared. Runs of 30000-200000 generated records (`c10.mass`, also under C02) are beyond what the model is evaluated on: there the binary's own figures are held against the conservation theorem (mass + skipped = records), a consequence checked on the implementation rather than a model comparison. Diagnostics are read off stderr by their numbers and the site they name; a rewording the harness cannot read makes a case not comparable (reported as a correspondence that no longer checks, without a failing input)."),
    "C11": dict(
        text="Lean theorems: readSite = pure siteSpec for any prior buffer contents (the explicit reset and the per-record zeroed projection buffer), run = entrywise sum of per-record contributions, additivity over concatenation, "
             "permutation invariance; per-record site-kind sequences from the real reader compared with the model over all ordered kind pairs, splits and permutations.",
        note=NOTE_COMMON + " With projection the implementation's binary64 sums depend on order in the last bits; compared within 2^-30 relative."),
    "C12": dict(
        text="PARTIAL (proof of the logic + exploration of the runtime). Proved in Lean: detection logic (gzip magic, BCF magic inside/outside gzip), the detection prefix is independent of the read schedule and leaves the reader right behind it, `sfs create` over any chunk schedule equals `sfs create` on the whole byte string (create_schedule_free) and factors through the decoded call set for all four containers "
             "(codecs as parameters with explicit hypotheses), the shape ignores map iteration order; and with the codecs made concrete (Props/C12B.lean over executable models of DEFLATE, gzip / BGZF framing with CRC-32, VCF text and BCF 2.2): inflate inverts stored blocks, BGZF decoding is independent of the block partition (stored encoder) and is the concatenation of whatever the blocks inflate to (any compressor), the gzip peek of Format::detect sees the first payload bytes, VCF and BCF encodings of a well-formed call set decode to it, and containers_agree_bytes: the whole pipeline from input bytes to stdout / exit status computes createCli of the call set for all four containers and every block size, over every chunk schedule of the stream. The byte-level models are tied to noodles / flate2 by the ct.create correspondence in both directions (the model decodes the bytes given to the binary; the binary reads bytes the model encoded). Explored, not proved: noodles' multithreaded BGZF reader, OS transport, hash seeds — each call set is executed 64-200 times "
             "over containers x transports x thread counts x BGZF layouts x repeats and all stdout bytes / exit classes must coincide and equal the model's output.",
        note=NOTE_COMMON + " Thread interleavings and block scheduling live in noodles-bgzf and the OS: no Lean model of this size can exhibit them; repetition explores them."),
}

CLAIMS.update({
    "C07": dict(
        text="Unbounded Lean theorems over byte strings and 64-bit patterns: npy_roundtrip (write then read returns the same shape and bit-identical values, NaN payloads and infinities included), reads_what_it_writes_npy/_text "
             "(auto-detection + reader accept what either writer emits), text_header_roundtrip, text_shape_tokens, fmtFixed_error (the printed decimal is within half a unit of the p-th decimal of the exact value), "
             "text_value_roundtrip (the re-read double is the nearest-even binary64 of the printed decimal, all precisions), special values survive as classes, and text -> npy -> text at equal precision reproduces the text whenever the printed values have at most 15 significant digits (text_npy_text, via nearest_error: the model's decimal -> binary64 conversion has relative error <= 2^-53 in the normal range); the literal 'within half a unit' of the re-read double is proved unattainable "
             "(literal_bound_witness: 0.75 at p=1), so the bound decided is half a unit + half an ulp. The std routines are modelled and compared string-for-string / bit-for-bit with Rust on every run; CLI pipes and files for all writer/reader pairs.",
        note=NOTE_COMMON + " `{:.p}` and f64::from_str (core/std) are modelled, not verified: the models fmtFixed / parseF64 are validated on every run (thousands of values). Non-ASCII input is outside the model."),
    "C15": dict(
        text="Unbounded Lean theorems: writer_layout (for every shape: magic, version 1.0, u16 little-endian header length making the data offset a multiple of 64, literal dict, space padding, newline, then 8 little-endian bytes per value in row-major order), "
             "writer_dict_parses, grammar_accepts_numpy (both quote styles, any spacing around ':' and ',', the three keys in any order, optional trailing commas), descr_accepted_iff (exactly byte-order char + one of ten type names), "
             "header_len_width (v1: 2 bytes, v2/v3: 4), fortran / bad version rejected, readValues_spec, and the decoders: f8 transported unchanged, f4 widened exactly, integers exact up to 2^53 and a nearest double beyond, big-endian = little-endian on reversed bytes; "
             "model compared byte for byte with the writer on every header-length residue mod 64 and three-way (model, implementation, numpy) on numpy-written files of all dtypes x byte orders x versions.",
        note=NOTE_COMMON + " numpy (tooling venv) is the interoperability oracle; nom's combinator semantics are re-stated in Lean (pSepList1Opt etc.) and validated on the spelling matrix. Ties-to-even for 64-bit integers beyond 2^53 is compared with numpy/Rust, the theorem states 'a nearest double'."),
    "C16": dict(
        text="Unbounded Lean theorems: prefix_rejected (every strict prefix of every file the writer can produce is rejected, wherever the cut falls), extension_rejected (any non-empty extra bytes), the same through auto-detection, "
             "npy_accept_sound / text_accept_sound (whatever is accepted has exactly the checked product of the declared shape as its number of values, any dtype / header version), token-count and shape edits of text files rejected, "
             "overflowing shapes rejected also when a zero-length axis masks the overflow (fix 004eece), and the CLI skeleton writes nothing when the read fails; every truncation offset and extension of 20-200 files and all single-token / single-axis edits are run on the real readers and the binary.",
        note=NOTE_COMMON + " The three subcommands' own computations are a parameter of the CLI skeleton model (specCli); clap is exercised, not modelled."),
    "C18": dict(
        text="PARTIAL (proof for sfs's own readers/writers + exploration of the noodles path). Unbounded Lean theorems over a model of BufRead/Read/Write with an arbitrary chunk schedule and failure offset: read_exact / read_line / read_to_end are schedule-free, "
             "readNpyRd = readNpy and readTextRd = readText for every schedule (one byte at a time, any first chunk), the detection prefix is schedule-free (fix 1c0411c), a reader failing at any offset up to EOF never yields a spectrum (and yields the I/O error itself on valid data), "
             "write_all through any short-writing writer delivers exactly the bytes, a writer failing before the last byte makes the operation fail; for call sets: the model of `sfs create` over a stream (read-ahead prefix, detection, decode with the concrete container codecs, run) is schedule-free (C12.create_schedule_free_bytes) and a reader failing at any offset up to EOF never yields a spectrum (create_read_failure_surfaces). Explored: the genotype reader (noodles VCF/BCF/BGZF) over enumerated first-chunk lengths, 1-byte schedules and injected failures, compared with the create model.",
        note=NOTE_COMMON + " std::io's default read_exact / read_line / read_to_string / write_all are re-stated in Lean (IoModel) and validated by running the real code over scheduled readers/writers; noodles' readers are not modelled."),
})

CLAIMS.update({
    "C06": dict(
        text="Unbounded Lean theorems over any field of characteristic zero: create_is_spectrum + linear_stat (every statistic that is a weighted sum over the cells of the created spectrum is the sum of the weight over the complete sites of the call set), "
             "and from it sum / S / pi (pairs of differing chromosomes, diffPairs_eq) / pi_xy / f2 / f3 / f4 / Hudson's Fst / KING / R0 / R1 equal their genotype-level definitions for every call set, any number of populations of any sizes; "
             "for every count spectrum of n chromosomes Watterson's theta, pi, Tajima's D and Fu and Li's D (as numerator / variance pairs) equal the published formulas (ordered field for a_n > 0); counts below 2^53 pass through the precision-0 text pipe between `create` and `stat` bit for bit (create_stdout_reads_back). "
             "The transcription (14 statistics incl. take/skip windows, frequencies i/(len-1), normalisation in the CLI dispatch) is compared with the real code on spectra with n up to 500-900, and the genotype-level definitions are evaluated independently on generated call sets.",
        note=NOTE_COMMON + " Partial clause: binary64 evaluation (sums, harmonic numbers, exp/ln binomial, sqrt) is compared within 2^-30 relative to the scale of the sums, not proved. The theorems use field semantics (x/0 = 0); degenerate shapes where the code returns NaN/inf are C17's subject."),
    "C14": dict(
        text="Unbounded Lean theorems over any field of characteristic zero, for every shape with axes >= 2: f3 and f4 equal the documented combinations of f2 of the normalised two-population marginals (via marginalize_eq_spec); pi, theta, S, Tajima's D, pi_xy, f2, f3, f4, Fst, KING, R0, R1 "
             "are unchanged by folding with fill zero (one lemma: a mirror-symmetric weighted sum is fold-invariant); all statistics but sum/f2/f3/f4 ignore the two monomorphic entries; f2, Fst, pi_xy, KING, R0, R1 are symmetric in the populations; scaling by c != 0 leaves f2, f3, f4, Fst, KING, R0, R1 unchanged "
             "and scales sum, S, pi, pi_xy, theta. Each relation is also executed on the implementation (incl. `sfs fold --fill zero | sfs stat`) and compared with the model.",
        note=NOTE_COMMON + " In binary64 the relations hold up to rounding; the correspondence compares each side with the exact model value within 2^-30 relative."),
})

CLAIMS.update({
    "C17": dict(
        text="PARTIAL (proof over sfs's own transcribed code + exploration of third-party parsing). Lean theorems for every shape and input: once Array::new accepted a shape no product of a contiguous range of axis lengths overflows 64 bits (strides, element counts, running quotients; the zero-masked case of fix 004eece included), "
             "spectra are only read at in-range positions (pi_xy cells, the nine kinship cells behind the 3x3 test, theta classes 1 <= i < n so n - i and C(n,2) are safe, shape[0]/shape[1] behind the dimension test), the statistic dispatch ends in a value or exactly the dimension / shape error, hypergeometric arguments do not underflow behind the zero test, "
             "-p values saturate, Input::new refuses exactly the two contradictory path/stdin situations, the npy padding is 1..64 and an oversized header is an error value, population ids are contiguous so Map::shape cannot unwrap None. Explored: outcome classes of the real code over the full statistic x degenerate-shape grid, short / absurd inputs, option bounds and a mutation stream over all input formats; never a panic except at the 14 listed noodles-bcf sites.",
        note=NOTE_COMMON + " The Lean model is total, so panics are ruled out site by site through guard theorems, not by a panic-outcome model; sites inside noodles / clap / std are outside the theorems. usize quantities that would need > 2^32 array elements to overflow (n^2 in Tajima's b2) are assumed out of reach. Known findings F18-F33 (dependency) are not repaired."),
})
