"""What MANIFEST.json claims per property (text in my own words)."""
HOOK_COMMITS = ["20240c9"]
NOT_APPLICABLE = {}
NOTE_COMMON = ("Trusted: Lean kernel + axioms {propext, Classical.choice, Quot.sound}; the hand-written model as a faithful transcription "
               "(validated by the correspondence run on every check, bounded by its generators); harness, driver decoding and python orchestration.")
CLAIMS = {
    "C19": dict(
        text="Unbounded Lean theorems about the code-shaped model of Array/View/iterators (flat<->multi-index bijection, get, iter_indices, get_axis bounds, "
             "axis-view iterator = odometer invariant for every shape/axis/position/call history incl. past exhaustion, exact len, AxisIter, Array::sum = sum of views); "
             "model tied to the Rust code by call-history comparison, exhaustive on all shapes in the bound.",
        note=NOTE_COMMON + " Element type in the correspondence is u64/f64; zero-length axes are outside the property and not explored."),
    "C05": dict(
        text="Unbounded Lean theorems over any characteristic-0 field: fold_spec (three-way rule via the flat mirror n-1-i), fold_mass, fold_idem, fold_polarity for every shape; "
             "model (transcribed Folded::from_spectrum/into_spectrum) compared exactly with the implementation on dyadic data incl. NaN/inf and all four fills.",
        note=NOTE_COMMON + " f64 evaluation is outside the theorems; the correspondence uses values whose binary64 sums/halves are exact. CLI fill mapping is checked once the text model exists (C07)."),
}
