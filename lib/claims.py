"""What MANIFEST.json claims per property (text in my own words)."""
HOOK_COMMITS = ["20240c9"]
NOT_APPLICABLE = {}
NOTE_COMMON = ("Trusted: Lean kernel + axioms {propext, Classical.choice, Quot.sound}; the hand-written model as a faithful transcription "
               "(validated by the correspondence run on every check, bounded by its generators); harness, driver decoding and python orchestration.")
CLAIMS = {
    "C19": dict(
        text="Unbounded Lean theorems about the code-shaped model of Array/View/iterators (flat<->multi-index bijection, get, iter_indices, get_axis bounds, "
             "axis-view iterator = odometer invariant for every shape/axis/position/call history incl. past exhaustion, exact len, AxisIter, Array::sum = sum of views); "
             "model tied to the Rust code by call-history comparison, exhaustive on all shapes in the bound.",
        note=NOTE_COMMON + " Element type in the correspondence is u64/f64; zero-length axes are outside the property and not explored."),
    "C05": dict(
        text="Unbounded Lean theorems over any characteristic-0 field: fold_spec (three-way rule via the flat mirror n-1-i), fold_mass, fold_idem, fold_polarity for every shape; "
             "model (transcribed Folded::from_spectrum/into_spectrum) compared exactly with the implementation on dyadic data incl. NaN/inf and all four fills.",
        note=NOTE_COMMON + " f64 evaluation is outside the theorems; the correspondence uses values whose binary64 sums/halves are exact. CLI fill mapping is checked once the text model exists (C07)."),
    "C04": dict(
        text="Unbounded Lean theorems over any commutative additive monoid: marginalize_eq_spec (for every valid axis list in any order the result is the sum over the removed axes, "
             "remaining axes in original order: the sort + `original - removed` shift is proved correct for any number of axes and unequal lengths), permutation invariance, "
             "stepwise = joint, mass, keep = remove complement, the three errors in the code's order; model compared exactly with Spectrum::marginalize on all subsets x all orders of exhaustive small shapes.",
        note=NOTE_COMMON + " The create/marginalize relation is stated with the create model (C01/C11 theorems) and explored through the CLI there; f64 summation order is outside the theorems (integer data is used so sums are exact)."),
    "C13": dict(
        text="Lean theorems: view_eq_chain (any option combination = four chained single-option runs in the order marginalize > project > mask > normalize), mask_spec "
             "(exactly the all-zero and all-maximum entries), normalize_spec (sums to one, ratios preserved), view_noop; the pipeline model (transcribed View::run) is compared with the real "
             "binary for all 16 option subsets, single vs chained through npy pipes.",
        note=NOTE_COMMON + " Lossless npy in between is C07/C15's theorem; binary64 evaluation of projection/normalisation is compared within 2^-30 relative, not proved. clap's option parsing is exercised, not modelled."),
    "C03": dict(
        text="Unbounded Lean theorems over any characteristic-0 field: project_eq_spec (the odometer + weighted accumulation computes y[t] = sum_f x[f] prod_j Hypergeom(t_j; n_j, f_j, m_j) for any number of axes), "
             "hyper_sum_one (Vandermonde), project_mass, project_nonneg, project_id, hyper_compose / project_project (two steps = direct), and the validation logic; the model is compared with "
             "Spectrum::project on all admissible targets of exhaustive small shapes and with hypergeometric_pmf at sizes up to 5000 chromosomes (exact rational reference).",
        note=NOTE_COMMON + " Partial clause: finiteness / accuracy of the binary64 evaluation at thousands of chromosomes is explored by coefficient probes (exact reference, 2^-30 relative), not proved."),
}
