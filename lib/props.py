"""Per-property configuration: required theorems (proof obligations), evidence rules, trusted base."""

TRUSTED_COMMON = [
    "Lean 4.33.0 kernel; axioms allowed: propext, Classical.choice, Quot.sound (audited per theorem with #print axioms)",
    "Mathlib v4.33.0 lemmas (kernel-checked)",
    "hand-written Lean model is a faithful transcription of the Rust code: validated by the correspondence run, bounded by its generators",
    "Rust harness (case generation, calling sfs-core in-process / spawning the sfs binary), Lean driver protocol decoding, python orchestration",
]

PROPS = {
    "C19": dict(
        theorems=["flat_unflat", "unflat_flat", "unflat_inB", "flat_lt", "indexFromFlat_eq", "dot_strides", "get_eq",
                  "get_isSome_iff", "indices_history", "indices_len", "getAxis_none_iff", "view_history",
                  "viewElem_isSome", "view_len", "view_toList", "axis_history", "axis_len", "sumAxis_eq"],
        nontrivial=r"^(indices-d[2-9]|view-rem[1-9]|axis-d[2-9]|sum-d[2-9]|get-some)",
        rule="exhaustive shapes (quick: 1-4 axes x lengths 1..3 and 1-3 axes x 1..4; thorough: 1-5 x 1..4, 1-4 x 5, 1-3 x 1..5) x all axes x all positions, "
             "each iterator driven size+5 calls with len() sampled before every call, plus out-of-range axis {d, d+1, 2^64-1}, position = length / 2^64-1, "
             "wrong-length and out-of-range indices, plus random larger shapes; non-trivial = distinct request on an array with >= 2 axes "
             "(or a view with >= 1 remaining axis, or an in-range get)",
        exhaustive=True,
        assumptions=["element type u64 ramp data for get/iter histories; f64 prime data for Array::sum (exact in binary64)"],
    ),
    "C05": dict(
        theorems=["indexSumFromFlat_eq", "rev_is_mirror", "fold_spec", "fold_length", "fold_mass", "fold_idem",
                  "fold_polarity", "reverse_is_mirror"],
        nontrivial=r"^fold-",
        rule="all shapes 1-4 axes x lengths 1..4 (+1-2 axes x 5..7, + random; thorough: all 1-4 x 1..7) with random dyadic non-antisymmetric data "
             "(exact in binary64), all four fills, NaN/inf inputs in 1/7 of the shapes; fold(fold x) and fold(reverse x) evaluated on the implementation; "
             "non-trivial = distinct request (every fold of a shape with >= 1 element exercises the three-way match)",
        exhaustive=True,
        assumptions=["values are multiples of 1/4 below 2^9 so that binary64 sums and halves are exact and compared exactly"],
    ),
    "C04": dict(
        theorems=["marginalize_eq_spec", "marginalize_perm", "marginalize_stepwise", "marginalize_mass",
                  "keep_eq_remove_complement", "duplicate_is_error", "out_of_range_is_error", "all_axes_is_error"],
        nontrivial=r"^(marg-(sorted|unsorted|stepwise)-[1-9]of[2-9]|err-)",
        rule="all shapes 1-3 axes x lengths 1..4 and 4 axes x 1..2 (thorough: 1-4 x 1..4, 5 x 1..3, 400 random up to 5 axes x 1..6) x all subsets of axes x all orders, "
             "odd integer data with distinct gaps (exact sums), one-at-a-time removal on the implementation, error streams (duplicate, out of range, 2^64-1, all axes, empty list); "
             "non-trivial = distinct request removing >= 1 axis of a >= 2-axis spectrum, or an error case",
        exhaustive=True,
        assumptions=["integer data below 2^53: binary64 sums are exact and compared exactly"],
    ),
    "C13": dict(
        theorems=["view_eq_chain", "view_noop", "mask_spec", "mask_length", "first_last_index", "normalize_spec", "sumList_eq"],
        nontrivial=r"^(view|chain)-(m1|m0p1|m0p0k1|m0p0k0n1|error)",
        rule="real `sfs view -O npy` binary on 40 (thorough 400) random non-negative count spectra with 1-4 axes x all 2^4 option subsets "
             "(marginalize via -m or -M, project via --project-shape or -p, --mask-monomorphic, -n; 1/12 of marginalization / projection arguments inadmissible), "
             "single invocation and the four-stage chain piped through npy, compared with viewRun in exact rationals within 2^-30 relative; "
             "non-trivial = distinct request with at least one option set, or an error case",
        exhaustive=False,
        assumptions=["numeric agreement within 2^-30*(|q| + scale): projection and normalisation are evaluated in binary64 by the implementation"],
        correspondence_only=["text output at --precision p (decided with the text model under C07)"],
    ),
    "C03": dict(
        theorems=["chooseFast_eq", "hyper_eq", "hyper_sum_one", "hyper_full", "projectValue_cons", "project_eq_spec", "projectIter_eq",
                  "project_ok_iff", "zero_is_error", "dimension_is_error", "larger_is_error", "project_mass", "project_id",
                  "project_nonneg", "hyper_compose", "project_project"],
        nontrivial=r"^(project-d[1-9]|project-two-step$|pmf-.*-pos|project-err)",
        rule="Spectrum::project in-process on every admissible target (<= 40 sampled per shape in quick) of all shapes 1-2 axes x 1..7, 3 axes x 1..3, 4 axes x 1..2 "
             "(thorough: 1-3 x 1..7, 4 x 1..3), odd-integer data and unit vectors (single operator rows), two-step vs direct, rejected targets (larger, zero, other dimensionality); "
             "hypergeometric_pmf coefficients at N in {1,2,3,169..172,500,1029,1030,2000,5000} x 120 (thorough 400) (K,n,k) probes around the mode; "
             "compared with exact rationals within 2^-30 relative; non-trivial = distinct request with a non-identity target, a positive coefficient or an error",
        exhaustive=True,
        assumptions=["binary64 evaluation (ln_gamma, exp, rounding of binomials) is compared within 2^-30*(|q|+scale), not proved; 'finite for thousands of chromosomes' is decided by the coefficient probes only"],
        correspondence_only=["finite results at sizes of thousands of chromosomes (f64 range)", "projection commutes with marginalization (explored via C13 chains)",
                             "project after create = project during create (stated and proved on the create model under C02)"],
    ),
}
