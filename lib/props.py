"""Per-property configuration: required theorems (proof obligations), evidence rules, trusted base."""

TRUSTED_COMMON = [
    "Lean 4.33.0 kernel; axioms allowed: propext, Classical.choice, Quot.sound (audited per theorem with #print axioms)",
    "Mathlib v4.33.0 lemmas (kernel-checked)",
    "hand-written Lean model is a faithful transcription of the Rust code: validated by the correspondence run, bounded by its generators",
    "Rust harness (case generation, calling sfs-core in-process / spawning the sfs binary), Lean driver protocol decoding, python orchestration",
    "tools/extract_consts.py (regex extraction of constants from the Rust source into Generated/SourceConsts.lean for Props/Tie.lean)",
]

PROPS = {
    "C19": dict(
        theorems=["flat_unflat", "unflat_flat", "unflat_inB", "flat_lt", "indexFromFlat_eq", "dot_strides", "get_eq",
                  "get_isSome_iff", "indices_history", "indices_len", "getAxis_none_iff", "view_history",
                  "viewElem_isSome", "view_len", "view_toList", "axis_history", "axis_len", "sumAxis_eq"],
        nontrivial=r"^(indices-d[2-9]|view-rem[1-9]|axis-d[2-9]|sum-d[2-9]|get-some|histarr-)",
        rule="exhaustive shapes (quick: 1-4 axes x lengths 1..3 and 1-3 axes x 1..4; thorough: 1-5 x 1..4, 1-4 x 5, 1-3 x 1..5) x all axes x all positions, "
             "each iterator driven size+5 calls with len() sampled before every call, plus out-of-range axis {d, d+1, 2^64-1}, position = length / 2^64-1, "
             "wrong-length and out-of-range indices, plus random larger shapes; non-trivial = distinct request on an array with >= 2 axes "
             "(or a view with >= 1 remaining axis, or an in-range get) 200 (thorough 2000) `hist.arr` call histories on one array object with 1-6 axes (get, set through IndexMut / get_mut, axis views, axis iterators, index iterators, axis sums, replacement by an axis sum, clones). Array histories also advance a view iterator k times and drain it through count / sum / last / fold / for_each / max; every shape with 1-3 axes of length 0..3 containing a zero-length axis (index / axis iterators, every axis view, axis sums). Round 7: `clonefrom` / `asg` (the object overwritten in place from one of another shape) in the call histories. Round 9: axis sums with lanes of 4097 … 8193 elements.",
        exhaustive=True,
        assumptions=["element type u64 ramp data for get/iter histories; f64 prime data for Array::sum (exact in binary64)"],
    ),
    "C05": dict(
        theorems=["indexSumFromFlat_eq", "rev_is_mirror", "fold_spec", "fold_length", "fold_mass", "fold_idem",
                  "fold_polarity", "reverse_is_mirror"],
        nontrivial=r"^fold-",
        rule="all shapes 1-4 axes x lengths 1..4 (+1-2 axes x 5..7, + random; thorough: all 1-4 x 1..7) with random dyadic non-antisymmetric data "
             "(exact in binary64), all four fills, NaN/inf inputs in 1/7 of the shapes; fold(fold x) and fold(reverse x) evaluated on the implementation; "
             "non-trivial = distinct request (every fold of a shape with >= 1 element exercises the three-way match) 60 (thorough 600) `hist.scs` call histories; size sweeps (every 1-axis length up to 64 and every third up to 300, thorough all up to 700; n x 2 / 2 x n / 3 x n; 5-8 short axes). Round 7: `c05.big` — spectra of 65537 … 262144 entries held against fold_mass / fold_spec / fold_idem / reverse_is_mirror on the implementation's output. Round 8: 2^1023 / 1.5 * 2^1023 on the diagonal (the pair's sum overflows, the average does not).",
        exhaustive=True,
        assumptions=["values are multiples of 1/4 below 2^9 so that binary64 sums and halves are exact and compared exactly"],
    ),
    "C04": dict(
        theorems=["marginalize_eq_spec", "marginalize_perm", "marginalize_stepwise", "marginalize_mass",
                  "keep_eq_remove_complement", "duplicate_is_error", "out_of_range_is_error", "all_axes_is_error", "marginal_is_spectrum", "marginal_counts"],
        modules=["SfsModel.Props.C04", "SfsModel.Props.C04X"],
        nontrivial=r"^(marg-(sorted|unsorted|stepwise)-[1-9]of[2-9]|err-)",
        rule="all shapes 1-3 axes x lengths 1..4 and 4 axes x 1..2 (thorough: 1-4 x 1..4, 5 x 1..3, 400 random up to 5 axes x 1..6) x all subsets of axes x all orders, "
             "odd integer data with distinct gaps (exact sums), one-at-a-time removal on the implementation, error streams (duplicate, out of range, 2^64-1, all axes, empty list); "
             "non-trivial = distinct request removing >= 1 axis of a >= 2-axis spectrum, or an error case 60 (thorough 600) `hist.scs` call histories; size sweeps (one axis of every length up to 130, thorough 400, next to short ones; 6-8 short axes). Round 6: `sfs view -m AXES` / `-M KEEP` through the binary on 2-5 axes, keep lists with repeated and unknown axes, duplicate remove lists (adjacent and not). Round 7: axes of 257, 258, 300, 401, 513, 640, 1025, 2049 entries. Round 10: every shape of >= 2 axes also with entries that are not counts (negative, -0.0, zero; every other round NaN and +-inf), every axis subset, at once and stepwise.",
        exhaustive=True,
        assumptions=["integer data below 2^53: binary64 sums are exact and compared exactly"],
    ),
    "C13": dict(
        theorems=["view_eq_chain", "view_noop", "mask_spec", "mask_length", "first_last_index", "normalize_spec", "sumList_eq"],
        nontrivial=r"^(view|chain)-(m1|m0p1|m0p0k1|m0p0k0n1|error)|^viewtext-",
        rule="real `sfs view -O npy` binary on 40 (thorough 400) random non-negative count spectra with 1-4 axes x all 2^4 option subsets "
             "(marginalize via -m or -M, project via --project-shape or -p, --mask-monomorphic, -n; 1/12 of marginalization / projection arguments inadmissible), "
             "single invocation and the four-stage chain piped through npy, compared with viewRun in exact rationals within 2^-30 relative; a quarter of the cases also as text at precision 0/1/3/6/12/15 (header line exact, one token per entry with exactly p decimals, each within half a printed unit + 2^-30 relative of the model value); "
             "non-trivial = distinct request with at least one option set, or an error case A fifth of the inputs are on frequency scale already (dyadic fractions summing to exactly one), a tenth sum to one only between the corners, a tenth are zero except the corners. A fifth of the inputs have monomorphic cells of 2^52 / 2^53 / 1e18 / 1e300 next to single-digit interior counts. Round 6: keep lists naming an axis twice (adjacent or not) or an axis the spectrum does not have. Round 7: text outputs of 100 KiB and more through `view`, plain / masked / normalised. Round 8: -n and --mask-monomorphic -n on 65537 / 66049 (thorough 100001) entries. Round 9: text -> npy -> text of 16-18 digit tokens and whole numbers beyond 2^40 at 17 / 16 / 18 / 6 / 9 decimals. Round 10: `c13.views` — the input arriving on stdin in two bursts (first burst 1, 2, 3, 5, 7, 64 or 129 bytes), synchronised on the child's blocking read through /proc.",
        exhaustive=False,
        assumptions=["numeric agreement within 2^-30*(|q| + scale): projection and normalisation are evaluated in binary64 by the implementation"],
        
    ),
    "C03": dict(
        theorems=["chooseFast_eq", "hyper_eq", "hyper_sum_one", "hyper_full", "projectValue_cons", "project_eq_spec", "projectIter_eq",
                  "project_ok_iff", "zero_is_error", "dimension_is_error", "larger_is_error", "project_mass", "project_id",
                  "project_nonneg", "hyper_compose", "project_project", "project_marginalize_comm", "hyper_le_one", "projectValue_le_one", "project_le_mass"],
        modules=["SfsModel.Props.C03", "SfsModel.Props.C03X", "SfsModel.Props.C03B"],
        nontrivial=r"^(project-d[1-9]|project-two-step$|project-row|pmf-.*-pos|project-err)",
        rule="Spectrum::project in-process on every admissible target (<= 40 sampled per shape in quick) of all shapes 1-2 axes x 1..7, 3 axes x 1..3, 4 axes x 1..2 "
             "(thorough: 1-3 x 1..7, 4 x 1..3), odd-integer data and unit vectors (single operator rows), two-step vs direct, rejected targets (larger, zero, other dimensionality); "
             "hypergeometric_pmf coefficients at N in {1,2,3,169..172,500,1029,1030,2000,5000} x 120 (thorough 400) (K,n,k) probes around the mode; "
             "compared with exact rationals within 2^-30 relative; non-trivial = distinct request with a non-identity target, a positive coefficient or an error Plus whole rows of the operator through Spectrum::project at 400 / 1100 / 1200 / 2000 (thorough up to 4000) chromosomes with the source entry mid-range and targets near half the source (c03.row), incl. one two-axis case. Every source size 1..260 (thorough 600) once: the rows of the first, middle and last source entry projected to two chromosomes. 60 (thorough 600) call histories on one spectrum object (`hist.scs`: queries, in-place edits, normalisation, clones, replacement by its own fold / marginal / projection). The large rows are repeated with source cells of 3e-14, 5e-16, 1e-300, 1e300 and 0.25. Round 8: `c03.row` compares every coefficient relative to its exact value (1e-6); rows with far tails; spectra whose total overflows binary64 while every entry and every projected entry is finite.",
        exhaustive=True,
        assumptions=["binary64 evaluation (ln_gamma, exp, rounding of binomials) is compared within 2^-30*(|q|+scale), not proved; 'finite for thousands of chromosomes' is decided by the coefficient probes only"],
        correspondence_only=["finite results at sizes of thousands of chromosomes (f64 range)",
                             "project after create = project during create (stated and proved on the create model under C02)"],
    ),
    "C01": dict(
        theorems=["buildSite_ok", "shape_eq", "alt_in_bounds", "run_eq_spec", "unselected_irrelevant", "incomplete_contributes_nothing", "mass_le_records",
                  "info_irrelevant", "extra_format_irrelevant", "phasing_irrelevant", "missing_spellings"],
        modules=["SfsModel.Props.C01", "SfsModel.Props.C01V"],
        nontrivial=r"^c01-(mem-noproj-pops[2-9]|mem-noproj-pops1-S?P?I|cli-.*-ok-noproj-skips|cli-.*-err)|^ct-cli-",
        rule="exhaustive: all 26 maps of 3 columns into <= 2 populations x all 64 records over {0,1,2,missing}^3 (in-process); random: 1-4 populations of unequal size, 2-12 (thorough 40) columns, "
             "any subset listed in any order, named/unnamed mix, 1-30 (thorough 300) records over called/missing/multiallelic/ploidy-error genotypes with 'only an unselected sample is bad' forced in 10%, "
             "two contigs, extra INFO/FORMAT fields; 300 in-process + 50 CLI (thorough 3000 + 400) over vcf/vcf.gz/bcf/raw bcf; stdout compared byte for byte (precision forced to 0); "
             "non-trivial = distinct request with >= 2 populations, or with both counted and skipped records, or a failing run Positions repeat (a third of the records share contig:position with their predecessor). Byte level (`ct.create`): a third of the CLI cases are also decoded from their container bytes by the model (Inflate / Bgzf / Vcf / Bcf models) instead of being handed over in the harness's notation. Every CLI run carries a log verbosity derived from its arguments (none / -v / -vv / -vvv). INFO-rich call sets carry AC / AN values that are deliberately out of step with the genotypes. Round 6: a third of the CLI call sets use sample names and labels with blanks; VCF-bound call sets carry allele indices 256 / 257 / 65536 / 2^32 (truncation to a narrower integer). Round 7: BGZF layouts with a leading empty block, a two-byte first block, and VCF text without final newline cut inside its last line rotate through the CLI and byte-level cases. Round 8: a third of the CLI call sets again under --strict with the listed samples complete and the unlisted ones incomplete. Round 9: ten populations of one sample each (59049 cells, a value line beyond 64 KiB). Round 10: the shared record generator makes one record in eight fixed within every population and one in twelve a no-ALT record with exactly one odd column (missing, partly missing, a reference call of another ploidy).",
        exhaustive=True, assumptions=["in-process cases drive the real site::Reader through an in-memory genotype::Reader; CLI cases run the real binary on generated VCF text / BCF (noodles writer, or a hand-written BCF2.2 encoder for mixed ploidy) / BGZF", "noodles (VCF/BCF/BGZF parsing), clap and env_logger are exercised, not modelled"],
    ),
    "C02": dict(
        theorems=["site_classification", "contribution_projected", "exact_eq_projected", "insufficient_contributes_nothing", "run_projected_eq_spec",
                  "individuals_eq_shape", "unequal_dimensions_error", "oversized_error", "zero_error", "admissible_ok", "create_then_project", "source_constants"],
        modules=["SfsModel.Props.C02", "SfsModel.Props.Tie"],
        nontrivial=r"^c02-(mem-proj-.*P|mem-proj-.*S.*I|mem-proj-.*I.*|mem-build-error|cli-)|^mass-",
        rule="exhaustive: 2 populations of 1-2 samples x every target m_j in 0..2n_j x all records over {0,1,2,missing}^n (in-process, incl. t = m for all j, t_j = m_j - 2, m_j = 0); "
             "random maps/targets incl. inadmissible ones (larger, other dimensionality, zero), -p vs --project-shape; cohorts of 90-600 (thorough 3000) samples in one population (binomials beyond f64 range); "
             "CLI with --precision in {0,1,6,15,default}; values within 2^-30 relative (+ half a unit of the printed decimal for CLI text) of the exact rational model; "
             "non-trivial = distinct request containing a down-sampled or insufficient site, a builder error, or any CLI run Plus 24 (thorough 120) call sets over 5-8 populations whose projected sites agree in some populations and differ in others; positions repeat. Every cohort size 1..140 (thorough 300) once (all homozygous ALT / one missing / alternating) projected to one individual. All-heterozygous cohorts of 100-700 samples projected to half the cohort. Round 7: `c02.mass` — 70002 and 30000 (thorough up to 200000) generated records through the binary with projection: mass + skipped = records (a consequence of C10.conservation checked on the implementation). Round 8: operator rows with far tails (1e-13 … 1e-40) compared entry by entry relative to their own exact value.",
        exhaustive=True, assumptions=["in-process cases drive the real site::Reader through an in-memory genotype::Reader; CLI cases run the real binary on generated VCF text / BCF (noodles writer, or a hand-written BCF2.2 encoder for mixed ploidy) / BGZF", "noodles (VCF/BCF/BGZF parsing), clap and env_logger are exercised, not modelled"] + ["binary64 evaluation of the hypergeometric pmf is compared with the exact value within 2^-30 relative, not proved"],
    ),
    "C08": dict(
        theorems=["classify_spec", "classify_ploidy", "classify_single_missing", "classify_range", "parseGT_phasing", "parseGT_render", "parseGT_index_overflow", "parseGT_leading_sep", "parseAllele_plus", "parseGT_dot", "tally_none_iff", "ploidy_aborts", "error_stops_run", "unselected_ignored"],
        nontrivial=r"^(c08|ct)-cli-",
        rule="every GT string over alleles {., 0, 1, 2, 3, 10} x separators {/,|} x ploidy 1-2 (all 78) and ploidy 3 (60 sampled; thorough all 864, plus allele 62/255/2^31 in VCF), placed in a selected column, "
             "an unselected column, or with all columns selected, through the VCF text path and the BCF binary path (mixed-ploidy GT vectors with end-of-vector padding), followed by a second record; "
             "observed: exit status, stdout bytes, skipped summary, error site 'contig:pos'; non-trivial = every distinct request (finite alphabet) Quick covers every triploid string over {., 0, 1} and tetraploid / pentaploid all-missing strings; every GT string is also placed in real VCF text / BCF int8 vectors that the container model decodes itself (`ct.create`). Plus records in which every sample has the same other ploidy (all haploid, all triploid, all-missing tetraploid) after and before diploid records, selected / unselected / all columns, VCF, BCF and byte level. Round 6: allele indices 256 … 2^32+1 and the edges of the GT grammar (leading separator, `+1`, index 2^64-1 / 2^64, empty alleles, lone separators) in VCF text. Round 7: BCF / VCF headers with IDX attributes out of line order and records on two contigs with a ploidy error (the error must name the record's contig). Round 8: every generated VCF spells the first ALT allele of the records at positions 5 mod 11 as `*`. Round 10: every other GT string is followed by records at the same contig and position.",
        exhaustive=True, assumptions=["in-process cases drive the real site::Reader through an in-memory genotype::Reader; CLI cases run the real binary on generated VCF text / BCF (noodles writer, or a hand-written BCF2.2 encoder for mixed ploidy) / BGZF", "noodles (VCF/BCF/BGZF parsing), clap and env_logger are exercised, not modelled"] + ["GT '.' (whole field missing) is a missing genotype (interpretation fixed by commit b7debed)"],
    ),
    "C09": dict(
        theorems=["distinct_first_appearance", "ids_first_appearance", "duplicate_sample_last_wins", "axis_len", "column_perm_invariant", "list_reorder_invariant",
                  "site_depends_on_lookup", "arg_item", "samples_arg_eq_file", "samples_file_crlf", "empty_list_is_error", "unknown_sample_is_error"],
        nontrivial=r"^c09-cli-",
        rule="150 (thorough 1500) call sets x sample lists (subset, random order, named/unnamed mix) given inline (-s) and as a file (-S), 3 permutations of list entries, 3 permutations of the input columns "
             "(VCF and BCF), plus error lists (absent sample, empty file, sample listed twice with different labels); every variant compared with the model, whose invariance under these transformations is proved; "
             "non-trivial = every distinct request A third of the call sets use sample names and labels with blanks, punctuation, shared first words, a label that is a prefix of another, an empty label, non-ASCII letters. A quarter of the call sets also pass the list through a named pipe as the samples file. Every fifth call set puts haploid / triploid / tetraploid genotypes into the unlisted columns. Round 6: samples files with CR LF line endings (after every line / between lines only). Round 7: every sixth call set has a record with a skipped and a non-diploid listed sample (fails whatever the column / list order). Round 8: a samples file whose last line is not valid UTF-8 must fail the run. Round 9: an empty label next to an unlabelled sample, blank list items, inline and by file. Round 10: population labels that contain `=` themselves (only the first `=` of a --samples item separates name from label).",
        exhaustive=False, assumptions=["in-process cases drive the real site::Reader through an in-memory genotype::Reader; CLI cases run the real binary on generated VCF text / BCF (noodles writer, or a hand-written BCF2.2 encoder for mixed ploidy) / BGZF", "noodles (VCF/BCF/BGZF parsing), clap and env_logger are exercised, not modelled"],
    ),
    "C10": dict(
        theorems=["site_weight_one", "conservation", "run_error_iff", "strict_first", "all_or_nothing", "summary_line"],
        nontrivial=r"^(c10|ct)-cli-|^mass-",
        rule="40 (thorough 400) record streams of length 1-8 x {non-strict, strict} x a fault (ploidy error in a selected column, a site that would be skipped, a corrupt POS field, a truncated line) inserted at every "
             "position 0..len (half of them in quick), with projection in a third of the streams; checked: exit status, stdout empty on failure, 'Skipped X/Y' parsed and X + mass = Y via the model, error names "
             "contig:pos of the first offending record; non-trivial = every distinct request Half of the streams repeat contig:position in consecutive records (counted and skipped ones); a third of the fault streams are also decoded from their VCF / BCF bytes by the container model (`ct.create`), incl. the corrupt-line kinds. One (thorough two) 600-sample stream under projection through the binary (all-heterozygous, one missing, half / half, three quarters missing). Round 6: the corrupt-line faults rotate over records whose ID / QUAL / FILTER / INFO column the VCF grammar refuses. Round 7: `c10.mass` runs (see C02). Round 8: -q / -qq rotate with -v / -vv / -vvv on every strict run. Round 10: 2600-record VCF text with an empty body line whose line feed is byte 65536, 65536 + 8192 or an unaligned offset (path, stdin, --strict): the run must fail with nothing written.",
        exhaustive=True, assumptions=["in-process cases drive the real site::Reader through an in-memory genotype::Reader; CLI cases run the real binary on generated VCF text / BCF (noodles writer, or a hand-written BCF2.2 encoder for mixed ploidy) / BGZF", "noodles (VCF/BCF/BGZF parsing), clap and env_logger are exercised, not modelled"] + ["for a corrupt record the reported position is not compared (noodles' reader state), only the error kind, exit status and empty stdout"],
    ),
    "C11": dict(
        theorems=["readSite_eq_spec", "readSite_lengths", "readSite_stateless", "run_eq_sum", "run_append", "run_perm"],
        nontrivial=r"^c11-(mem-.*(SP|SI|PI|SPI)|cli-)",
        rule="all 64 ordered pairs (predecessor kind, successor kind) of eight site kinds (complete, exactly sufficient through a missing / a multiallelic sample, insufficient in either population, complete with other counts, every selected sample uncalled, every sample uncalled) x 4 projection settings; 120 (thorough 1000) random sequences of 2-12 records x every split point (both parts) x 5 (thorough 20) "
             "permutations, in-process with the per-record site kind sequence compared item by item; CLI on concatenated / permuted VCF and BCF; non-trivial = distinct request mixing at least two site kinds Every ordered pair also at one shared contig:position; odd sequences consist of runs of records sharing a position. Plus cohorts of 90-130 samples under projection whose called totals go up and down along the stream: whole, every split point, permutations, reversed. CLI streams also contain records whose FORMAT has no GT key, spliced after the first record, in the middle and at the end. Round 6: streams with one record spliced in (front, second, end) whose INFO / ID / QUAL / FILTER column is refused. Round 10: fixed-difference records (one population fixed for ALT, the other for REF; fixed for ALT everywhere) among the record kinds of the exhaustive pairs and the random sequences.",
        exhaustive=True, assumptions=["in-process cases drive the real site::Reader through an in-memory genotype::Reader; CLI cases run the real binary on generated VCF text / BCF (noodles writer, or a hand-written BCF2.2 encoder for mixed ploidy) / BGZF", "noodles (VCF/BCF/BGZF parsing), clap and env_logger are exercised, not modelled"],
    ),
    "C12": dict(
        model_emitted=True,
        theorems=["detect_magic", "prefix_schedule_free", "prefix_then_rest", "create_schedule_free", "pipeline_factors", "containers_agree", "pipeline_factors_decoded", "same_calls_same_output", "shape_by_lookup", "source_constants", "inflate_stored", "bgzf_block_roundtrip", "bgzf_roundtrip", "bgzf_partition_free", "gzip_peek", "vcf_roundtrip", "bcf_roundtrip", "detect_encoded", "containers_agree_bytes", "same_bytes_outcome", "bgzf_concat_any", "create_schedule_free_bytes", "dict_idx_honoured", "dict_order_of_appearance", "dict_insert_keeps_earlier"],
        modules=["SfsModel.Props.C12", "SfsModel.Props.Tie", "SfsModel.Props.C12B"],
        nontrivial=r"^(c12-same|ct-cli)",
        rule="12 (thorough 60) call sets (up to 3000 records, with/without projection and sample lists, one ending in a ploidy error) each run as {vcf, vcf.gz, bcf, raw bcf} x {path, stdin} x threads {1,3,16} "
             "(thorough 1,2,3,4,8,16) x BGZF layouts (one line per block, random cuts incl. mid-line, interleaved empty blocks; thorough also single block / 9 even cuts) x 2 (thorough 3) repeated executions: "
             "all stdout bytes and exit classes must be identical, and equal to the model's output; non-trivial = every distinct call set (each stands for 64-200 executions) Each call set is additionally read from a named pipe given as the input path (first write of 1 / 2 / 20 bytes). Byte level (`ct.create`): 40 container files (flate2-compressed BGZF, noodles-written BCF) are decoded by the model's own inflate / BGZF / VCF / BCF decoders, and 36 container files *written by the model's encoders* (stored-block BGZF with block payloads of 1 ... 65280 bytes, plain VCF, BCF) are read by the binary: outcome = createCli of the decoded call set in both directions. A quarter of the call sets carry 126 / 197 / 266 INFO definitions ahead of FORMAT/GT (16-bit FORMAT keys in BCF). Every seventh record carries a reference allele of 16 / 130 / 300 bases (BCF typed strings with inline, 8-bit and 16-bit lengths). BGZF layouts without the end-of-file marker block and with an empty stored block in its place. Round 6: every eighth call set declares INFO fields after FORMAT/GT in the header (dictionary order of appearance, F36). Round 7: IDX-attribute headers (every eighth call set); layout variants for the ends of the stream (see C01). Round 8: one (thorough three) projected run of 1500+ records x 14 samples with hundreds of site classes at 17 decimals. Round 10: structured records of the shared generator (fixed within populations; no ALT allele with one odd column, including reference calls of another ploidy).",
        exhaustive=False, assumptions=["in-process cases drive the real site::Reader through an in-memory genotype::Reader; CLI cases run the real binary on generated VCF text / BCF (noodles writer, or a hand-written BCF2.2 encoder for mixed ploidy) / BGZF", "noodles (VCF/BCF/BGZF parsing), clap and env_logger are exercised, not modelled"] + ["thread scheduling, OS pipes and hash seeds are runtime behaviour: explored by repetition, not proved"],
    ),
}

IO_ASSUME = ["in-process cases call the real write::Builder / Array::read_npy / text reader (hook verif_read_text) / read::Builder; CLI cases run the real binary on pipes and files", "std `{:.p}` and `f64::from_str` are modelled (fmtFixed, parseF64) and compared string-for-string / bit-for-bit on every run; non-ASCII input bytes are outside the model and not generated"]

PROPS.update({
    "C07": dict(
        theorems=["npy_roundtrip", "writeNpy_ok", "detect_npy", "reads_what_it_writes_npy", "text_header_roundtrip", "fmtFixed_token", "text_shape_tokens",
                  "fmtFixed_error", "fmtRatFixed_parses", "text_value_roundtrip", "text_special_roundtrip", "literal_bound_witness", "detect_text", "reads_what_it_writes_text",
                  "nearest_error", "fifteen_digits_print_back", "text_npy_text", "source_constants"],
        modules=["SfsModel.Props.C07", "SfsModel.Props.C07X", "SfsModel.Props.Tie"],
        nontrivial=r"^(npyrt-res\d+-d[2-9]|npyrt-.*special|textrt-p\d+-d[2-9]|fmt-fin|parse-|pipe-|t2n2t-|detect-[NT])",
        rule="220 (thorough 3000) random spectra with 1-6 axes over value classes {counts, negative dyadics, decimal ties, subnormals, huge, arbitrary bit patterns, NaN with several payloads, +-inf, +-0}: "
             "write npy -> bytes compared with writeNpy, read back compared with readNpy (bit patterns); write text at precision 0..17 -> bytes compared with writeText (i.e. `{:.p}` vs fmtFixed), "
             "read back compared with readText (f64::from_str vs parseF64, bit for bit); 2500 (thorough 50000) single values formatted, 1650 (thorough 20000) decimal strings parsed incl. a malformed stream; "
             "format detection on prefixes; 40 (thorough 400) CLI chains `sfs view -O {npy,text} --precision p` to a pipe or a file, read by view / fold / stat with auto-detection; "
             "40 (thorough 300) text -> npy -> text chains at equal precision (clause checked on the model for <= 15 significant digits); "
             "non-trivial = distinct request other than a 1-axis spectrum without special values, a non-finite single value or an undetected prefix Plus shapes whose npy header is 64-aligned before padding (20-22 axes) and spectra of 8192 / 8193 / 9261 / 10201 / 16385 values, in-process and through pipes / files. Plus readers whose stdin delivers the file in two pieces with a pause, cut inside the header, at its end, inside a value and at a value boundary (io.pipe split<k>). Spectra also reach the readers through a named pipe given as input PATH; npy spectra of more than 128 integer counts without any 0x0a byte are piped. Round 6: files given by PATH carry rotating extensions (.npy .txt .sfs .NPY .saf.npy .npy.txt .gz) whatever format they hold. Round 7: text outputs of 100 KiB and more (21x21x21, 9500 entries). Round 8: text at 18 … 400 decimals with values down to 4.9e-324. Round 10: 512 npy files whose last entry has most significant byte b and whose first entry has least significant byte b (b = 0..255) through the real read::Builder.",
        exhaustive=False, assumptions=IO_ASSUME,
    ),
    "C15": dict(
        theorems=["writer_layout", "writer_data_offset", "writer_error_iff", "writer_dict_parses", "grammar_accepts_numpy", "bar_is_little", "descr_accepted_iff",
                  "header_len_width", "bad_version_rejected", "fortran_rejected", "readValues_spec", "decode_big_eq", "decode_f8", "decode_f4", "signedOf_spec",
                  "decode_unsigned_exact", "decode_signed_exact", "decode_unsigned_nearest", "decoder_table", "source_constants", "source_alignment"],
        modules=["SfsModel.Props.C15", "SfsModel.Props.Tie"],
        nontrivial=r"^(npyrt-|numpy-|npyread-|rdnpy-)",
        rule="writer: 69 shapes whose header dict length covers every residue modulo 64 (each residue is a tag in the histogram), zero-length axes, 40 (thorough 400) random shapes — bytes compared with writeNpy, "
             "and a third (thorough all) loaded by real numpy (python3-vt) and compared bit for bit; reader: 186 (thorough ~600) files written by numpy.lib.format.write_array for dtype(10) x byte order(<,>) x version(1.0,2.0,3.0) "
             "with boundary values (min, max, +-1, 2^53+-1.., 2^64-1025..) where model, implementation and numpy's astype('<f8') must agree bit for bit, plus numpy files that must be rejected (Fortran order, bool, complex, f2, 0-d, str, structured); "
             "synthesized headers (each accepted one also read through a BufRead whose chunks are not aligned to the item size): type(10) x byte-order char(<,>,|) x version(1,2,3) x spelling (quotes, spacing, key order, trailing commas; a third outside the accepted family), unsupported descr strings, bad versions, count mismatches, malformed tuples; "
             "non-trivial = every distinct request Plus written spectra of 8192 / 8193 / 9261 / 10201 / 12297 / 16385 values (numpy loads them too). Every value count 1..70 and every power of two up to 2^14 with its neighbours is written once. Round 6: npy output onto a path that already holds a longer file (`io.overwrite`). Round 7: npy on stdin in two pieces with a first piece of 1-11 bytes, and through a named pipe.",
        exhaustive=True, assumptions=IO_ASSUME + ["numpy 2.x from the tooling venv is the oracle the property names; if python3-vt is missing those cases are skipped and the evidence shows no numpy-* tags"],
    ),
    "C16": dict(
        theorems=["prefix_rejected", "extension_rejected", "damaged_npy_rejected", "npy_accept_sound", "text_accept_sound", "text_token_count_rejected",
                  "text_shape_edit_rejected", "overflow_is_none", "overflow_behind_zero_is_none", "cli_no_output_on_reject"],
        nontrivial=r"^(npyread-err|textread-err|specread-err|cli-\w+-rejected)",
        rule="20 (thorough 200) valid npy files written by the implementation: every truncation offset 0..len-1 and every extension 1..16 (zeros and random bytes) through Array::read_npy (exhaustive per file), "
             "a sample of offsets (header boundaries, value boundaries +-1, every 29th) through read::Builder with auto-detection and through the binary (view / fold / stat: exit status 1 and empty stdout required); "
             "25 (thorough 120) text files: every single-token removal and insertion, every axis edited (+1, -1, x2, +2^32), axis dropped / added, overflowing and zero-masked overflowing shapes, missing value line, tabs/newlines as separators, a non-numeric token; "
             "non-trivial = distinct damaged input that the model rejects Plus npy files of 4096 / 8192 / 64x64 / 128x32 values (thorough also 4095, 4097, 1024, 2048, 3x4096) extended by 1 / 8 / 9 / 4096 bytes and by a whole second copy, and truncated. Every CLI damage case also runs with the input given as a PATH to a regular file and with `view -O npy`; text spectra in the spellings other tools produce (CRLF, blank lines, leading / trailing blanks, exponent / signed / bare-dot numbers, byte-order mark). Round 7: files refused for what their header says (Fortran order, unsupported element types), whole / cut at item boundaries / extended. Round 10: `io.cmds` — a valid npy / text file followed by more bytes (or cut short), the input split into two bursts exactly where the valid file ends (or inside magic string / header / a value).",
        exhaustive=True, assumptions=IO_ASSUME,
    ),
    "C18": dict(
        theorems=["readExact_schedule_free", "readLine_schedule_free", "readToEnd_schedule_free", "readNpy_schedule_free", "readText_schedule_free", "detect_schedule_free",
                  "read_failure_surfaces_npy", "read_failure_is_io_npy", "read_failure_surfaces_text", "read_failure_is_io_text", "stdout_delivers", "stdout_failure_surfaces", "unflushed_tail_is_buffered", "npy_pieces_are_the_writer", "text_pieces_are_the_writer", "writeAll_schedule_free", "writeNpy_schedule_free", "writeText_schedule_free",
                  "write_failure_surfaces_npy", "write_failure_surfaces_text", "source_prefix_len", "create_read_failure_surfaces", "create_read_failure_surfaces_bytes"],
        modules=["SfsModel.Props.C18", "SfsModel.Props.Tie", "SfsModel.Props.C18B", "SfsModel.Props.C18C"],
        nontrivial=r"^(rdnpy-|rdtext-|wr-|geno-|fsize-)",
        rule="6 (thorough 30) npy files: first-chunk length enumerated 1..min(len,600) with later chunks whole / 1 byte / random 1-11, a read failure injected at every byte offset 0..len (incl. failing instead of EOF), truncated files over random schedules; "
             "the text reader likewise; writers: 1..7 bytes accepted per call and random schedules, a write failure at every offset (every third in quick); "
             "genotype reader (hook build_from_bufread) over vcf / vcf.gz / bcf / raw bcf for 3 (thorough 12) call sets: first chunk 1..150 (thorough 600) then whole / 1-byte / random chunks, 4096 / 8192 / 65535 / 65536 / 65537, all 1-byte, "
             "and failures at 21 (thorough 101) offsets across the stream — a failing stream must give an error or the complete result; compared with the create model; non-trivial = every distinct request Plus the binary reading a named pipe given as the input path with a first write of 1 / 2 / 3 / 19 / 27 bytes (vcf, vcf.gz, bcf, raw bcf). Injected failures rotate through seven error kinds (Other, BrokenPipe, ConnectionReset, PermissionDenied, TimedOut, WouldBlock, ConnectionAborted); `io.epipe` runs view / fold / stat with the reading end of stdout already closed. The short-writing sink implements write_vectored natively (the per-call limit applies across the buffers). Round 6: `io.fsize` — stdout a regular file under RLIMIT_FSIZE with the limit inside header, values, the final bytes, at and beyond the full length (F35). Round 7: npy 2.0 / 3.0 with headers of more than 65535 bytes through chunked and failing readers; text streams with a refused header line and a failure at every offset. Round 8: `io.fsizeo` (`-o PATH` under a file-size limit); stdout cases are decided by the line-writer model (`Model/Stdout.lean`). Round 9: a named pipe as input PATH carrying more than 64 KiB of plain and BGZF VCF.",
        exhaustive=True, assumptions=IO_ASSUME + ["noodles' VCF/BCF/BGZF readers are exercised over chunk schedules, not modelled (partial: explored, not proved)"],
        correspondence_only=["schedule independence and failure propagation of the noodles-based genotype reader path (vcf, vcf.gz, bcf, raw bcf)"],
    ),
})

ST_ASSUME = ["in-process cases call the library statistics (with the dispatch / normalisation of Statistic::calculate re-done in the harness), `st.cmd` / `st.genocli` / `foldcli` cases run the real binary (clap, the real dispatch, text output)",
             "binary64 evaluation is compared with exact rationals within 2^-30 relative to the scale of the defining sums (D statistics: without square roots, tolerance relative to |pi| + |theta|); not proved"]

PROPS.update({
    "C06": dict(
        theorems=["create_is_spectrum", "linear_stat", "sum_def", "S_def", "diffPairs_eq", "diffBetween_eq", "pi_def", "pixy_def", "f2_def", "f3_def", "f4_def", "fst_def",
                  "king_def", "r0_def", "r1_def", "harmonic_eq", "watterson_published", "segregating_published", "pi_published", "tajimaD_published", "fuLiD_published",
                  "count_is_exact", "count_prints_as_integer", "count_text_roundtrip", "create_stdout_reads_back",
                  "stat_row_order", "stat_alone_or_in_company", "stat_header_order", "stat_permutation"],
        modules=["SfsModel.Props.C06", "SfsModel.Props.C06C"],
        nontrivial=r"^(stmem-d[1-4]-(le171|gt171|3x3)|stcli-|stgeno-|stgenocli-|stcmd2-|harm-)",
        rule="estimator level: 56 (thorough 416) 1-D count spectra with n in {3..7, 10, 25, 63, 64, 100, 169..172, 200, 400} + log-uniform up to 500 (thorough 900) chromosomes, a third with many empty classes: pi, theta, Tajima's D, Fu and Li's D, S, sum; "
             "all 14 statistics (wrong dimensionality -> the specific error) on 160 (thorough 1500) spectra with 1-4 axes of unequal length incl. 3x3, a quarter also through `sfs stat` at precision 6/12/15; 60 (thorough 400) invocations over the option surface of `sfs stat` (header row, delimiter, one precision for all / one per statistic / a wrong number, an inapplicable statistic in any position) against the `statCli` model; "
             "genotype level: 150 (thorough 1500) call sets with 1-4 populations of unequal size (and two-individual sets for KING/R0/R1), 1-60 (thorough 200) records with missing / multiallelic genotypes and unselected columns -> real site reader -> statistics, "
             "compared with the definitions evaluated directly on the genotypes (Spec.g*, published estimators on the class counts); a fifth through `sfs create | sfs stat --precision 12`; non-trivial = distinct request on a spectrum with more than 4 cells or any genotype-level / CLI case Multiallelic genotypes are spelled with one- and two-digit allele indices (0/2, 0/10, 2/1, 1|12). Every n from 3 to 260 (thorough 700) once at estimator level (the two D statistics on every fifth). The genotype-level CLI cases include pooled call sets (no sample list) whose VCF carries stale AC / AN. Round 6: `st.harm` sweeps harmonic(n) and p_harmonic(n,2) for every n up to 12288 (thorough 40000); spectra with 1024-5009 entries (1-D, 33x33, 11x11x11, 6^4); theta at n = 1024 (thorough 2504, 4096, 5008). Round 7: two thirds of the genotype-level call sets repeat positions and start the second contig where the first ended. Round 8: `sfs stat` at 17 … 1000 decimals and with per-statistic precision lists such as 6,400,6; sums over 65537 … 100001 entries. Round 9: spectra dominated by 7e5 … 3e9 monomorphic sites next to a handful of variants (in-process and through `sfs stat`).",
        exhaustive=False, assumptions=ST_ASSUME,
        correspondence_only=["accuracy of the binary64 evaluation (2^-30 relative bound is tested, not derived)"],
    ),
    "C14": dict(
        theorems=["fold_invariant_S", "fold_invariant_pi", "fold_invariant_theta", "fold_invariant_tajimaD", "fold_invariant_pixy", "fold_invariant_f2", "fold_invariant_f3", "fold_invariant_f4",
                  "fold_invariant_fst", "fold_invariant_king", "fold_invariant_r0", "fold_invariant_r1", "f3_from_f2", "f4_from_f2",
                  "mono_independent_S", "mono_independent_pi", "mono_independent_theta", "mono_independent_tajimaD", "mono_independent_fuLiD", "mono_independent_pixy", "mono_independent_fst", "mono_independent_king",
                  "swap_invariant_f2", "swap_invariant_fst", "swap_invariant_pixy", "swap_invariant_king", "scale_free", "scale_linear"],
        nontrivial=r"^strel-",
        rule="200 (thorough 3000) count spectra with 1-4 axes of unequal length (and 3x3): for every applicable statistic the value on x and on T(x) for T in {fold with fill zero (library and `sfs fold --fill zero | sfs stat`), "
             "replace the two monomorphic entries by random values, multiply by a constant in {2, 0.5, 3, 0.1, 1000, 7.25, 0.001}, swap the two populations}, and f3 / f4 against the f2 combination of the marginals computed with the real marginalize; "
             "both values compared with the model, and the relation itself re-checked on the model values in exact arithmetic (a relation failing there is reported as a model-level violation); non-trivial = every distinct request Plus `sfs stat` invocations computing all applicable statistics together in random order (and count-based next to frequency-based pairs) on x, c*x and x with other monomorphic entries. Plus `monoip`: total and statistic queried, the two monomorphic cells overwritten in place through IndexMut on the same object, statistic queried again (every statistic). 150 (thorough 1500) `hist.scs` call histories on one spectrum object. Scale constants range from 1e-290 to 1e280 (the two D statistics up to 1e100). Round 6: the relations on spectra with 1025-4100 entries (1-D, 33x33, 40x30, 11x11x11, 6^4). Round 8: monomorphic entries of 1e18 / 2^62 under fst, king, r0, r1. Round 9: monomorphic cells of 2^53 / 1e18 under S, pi, theta, Tajima's D, pi_xy; the tolerance scale of S / pi / theta is the polymorphic mass alone. Round 10: for sum, S, pi and theta also a power-of-two scale that lifts the total to just below 2^1024.",
        exhaustive=False, assumptions=ST_ASSUME + ["swapping, scaling and replacing entries are done by the harness on the data (there is no sfs operation for them); folding and marginalisation use the real code"],
    ),
})

PROPS.update({
    "C17": dict(
        theorems=["products_fit", "strides_fit", "absurd_shapes_rejected", "flat_index_in_range", "pixy_guards", "kinship_guards", "theta_guards", "fst_guards", "dispatch_total",
                  "hyper_guards", "individuals_guard", "writer_guards", "map_shape_guard", "input_rule"],
        nontrivial=r"^(pncalc-|pnfold-|pnspec-|pnview-|pninput-|pnany-\w+-err)",
        rule="outcome classes {OK, ERR, PANIC}: the full grid statistic(14) x shapes with 1-4 axes of length 0..4 (all 780 shapes in thorough; 1-3 axes + a fifth of the 4-axis shapes in quick) in-process (each statistic separately, panics caught), a sample of it through `sfs stat` / `sfs fold --fill *` / `sfs view [-O npy]` on text inputs (zero-element spectra included), view option combinations on degenerate shapes, "
             "27 empty / 1-7 byte / header-only inputs x 5 invocations, 24 absurd declared shapes (2^32 x 2^32, zero-masked overflow, 2^64 +- 1, 300 / 22000 axes) x 12 invocations, 35 option values at and beyond their bounds (--precision 65535/65536/2^32/2^64, -p 2^63.., axis 2^64-1, delimiters), 29 contradictory sample lists / projections / thread counts for create, "
             "and a mutation stream of 2400 (thorough 50000) inputs (bit flips, byte edits, deletions, duplications, truncations, splices, huge numbers, separators) over text / npy spectra, VCF, raw BCF and BGZF payloads re-wrapped in valid blocks; where the model predicts the class it must match, elsewhere the run must end in OK or in a non-zero status with a diagnostic on stderr; "
             "non-trivial = distinct request whose class the model predicts, or any run that ends in a diagnosed error Plus npy / text headers declaring degenerate shapes ((), (,), (0,), (1,), (1, 1), (0, 0), <>) x each of the 14 statistics separately and the view / fold options. Plus every axis length 2..260 (thorough 600) once, projected to two chromosomes with all mass in the last cell, every fourth also to one less than it has. Every single-axis marginalization / keep / projection of every zero-element shape of the grid through the binary. Round 6: axis lists of every form for -m / -M on spectra of 1-6 axes; zero-element shapes at the limits of usize (F37). Round 7: BCF whose records carry more or fewer samples than the header names. Round 8: refused npy and text headers with 2-, 3- and 4-byte characters at every offset 60-100. Round 9: sample lists with blank items and empty labels among the odd `create` arguments.",
        exhaustive=True, assumptions=["the binary is the debug build the test suite uses (overflow checks on); in-process cases run under catch_unwind", "noodles / clap / nom / flate2 are exercised, not modelled; 14 panic sites inside noodles-bcf 0.32.0 (`todo!` on reserved typed values, split_at on zero alleles) are listed in known_findings.json and reported as KNOWN-FINDING"],
        correspondence_only=["absence of panics in third-party parsing of arbitrary VCF/BCF bytes (explored by the mutation stream)", "clap's handling of option values (explored)"],
    ),
})
