#!/usr/bin/env python3
"""Seeded-defect workflow.
  seed.py confirm <outdir> <worktree>      apply patch in the scratch worktree, run the test suite (must pass), run the demo
                                           (must fail), revert, run the demo again (must pass)
  seed.py check <outdir> <Cxx> [Cyy ...]   apply patch to /repo, run ./check for the given properties, always revert
  seed.py keep <outdir> <seed-id> <Cxx> <detected-by...>   copy into /verif/seeded/<seed-id>/
"""
import sys, os, re, json, subprocess, shutil, glob

ENV = dict(os.environ, CARGO_NET_OFFLINE="true", SFS_ALLOW_STDIN="1", RUST_BACKTRACE="0")
def sh(cmd, cwd=None, timeout=3600):
    p = subprocess.run(cmd, cwd=cwd, shell=True, env=ENV, stdout=subprocess.PIPE, stderr=subprocess.STDOUT, timeout=timeout)
    return p.returncode, p.stdout.decode("utf-8", "replace")

def demo(out, wt):
    meta = json.load(open(os.path.join(out, "meta.json")))
    if os.path.exists(os.path.join(out, "demo.sh")):
        rc, o = sh("cargo build --offline 2>&1 | tail -1", cwd=wt)
        rc, o = sh(f"SFS={wt}/target/debug/sfs bash {out}/demo.sh", cwd=wt)
        return rc, o[-1500:]
    tests = glob.glob(os.path.join(out, "*.rs"))
    assert tests, "no demo"
    m = re.search(r"(core|cli)/tests/(\w+)\.rs", meta.get("demo", "") + json.dumps(meta))
    crate, name = (m.group(1), m.group(2)) if m else ("core", "seed_demo")
    d = os.path.join(wt, crate, "tests"); existed = os.path.isdir(d); os.makedirs(d, exist_ok=True)
    dst = os.path.join(d, name + ".rs"); shutil.copy(tests[0], dst)
    pkg = "sfs-core" if crate == "core" else "sfs-cli"
    rc, o = sh(f"cargo test -p {pkg} --offline --test {name} 2>&1 | tail -25", cwd=wt)
    ok = "test result: ok" in o
    os.remove(dst)
    if not existed: shutil.rmtree(d, ignore_errors=True)
    return (0 if ok else 1), o[-1500:]

def main():
    cmd = sys.argv[1]; out = os.path.abspath(sys.argv[2])
    patch = os.path.join(out, "patch.diff")
    if cmd == "confirm":
        wt = sys.argv[3]
        sh("git checkout -- . && git clean -fdq -e target", cwd=wt)
        rc, o = sh(f"git apply {patch}", cwd=wt); assert rc == 0, o
        rc, o = sh("cargo test --workspace --offline 2>&1 | grep -E '^test result|FAILED|^error' ", cwd=wt)
        passed = sum(int(x) for x in re.findall(r"ok\. (\d+) passed", o)); failed = "FAILED" in o or "error" in o
        print(f"suite with change: {passed} passed, failed={failed}")
        rc1, o1 = demo(out, wt); print(f"demo with change: rc={rc1}")
        sh("git checkout -- . && git clean -fdq -e target", cwd=wt)
        rc0, o0 = demo(out, wt); print(f"demo without change: rc={rc0}")
        sh("git checkout -- . && git clean -fdq -e target", cwd=wt)
        good = passed >= 90 and not failed and rc1 != 0 and rc0 == 0
        print("CONFIRMED" if good else "NOT CONFIRMED"); 
        if not good: print(o1[-800:], "\n---\n", o0[-800:])
        return 0 if good else 1
    if cmd == "check":
        props = sys.argv[3:]
        rc, o = sh("git status --porcelain", cwd="/repo"); assert o.strip() == "", "/repo not clean"
        rc, o = sh(f"git apply {patch}", cwd="/repo"); assert rc == 0, o
        res = {}
        try:
            for p in props:
                rc, o = sh(f"./check {p}", cwd="/verif", timeout=7200)
                v = [l for l in o.split("\n") if l.startswith("VIOLATION") or l.startswith(p + ":")]
                res[p] = rc
                print(f"[{p}] rc={rc}  " + " | ".join(v)[:400])
        finally:
            sh("git checkout -- .", cwd="/repo")
        # refresh evidence on the unchanged tree is the caller's business
        return 0
    if cmd == "keep":
        sid = sys.argv[3]; prop = sys.argv[4]; det = sys.argv[5:]
        dst = os.path.join("/verif/seeded", sid); os.makedirs(dst, exist_ok=True)
        for f in os.listdir(out):
            if f.endswith((".diff", ".sh", ".rs", ".json", ".py", ".vcf", ".txt", ".sfs")) and os.path.getsize(os.path.join(out, f)) < 200000:
                shutil.copy(os.path.join(out, f), dst)
        meta = json.load(open(os.path.join(dst, "meta.json")))
        meta["breaks_property"] = prop; meta["detected_by"] = det
        meta["confirmed"] = "applied in a scratch worktree: cargo test --workspace --offline passes (89 tests + doctest), demonstration fails with the change and passes without it (tools/seed.py confirm)"
        json.dump(meta, open(os.path.join(dst, "meta.json"), "w"), indent=1)
        print("kept", dst)
        return 0
if __name__ == "__main__":
    sys.exit(main())
