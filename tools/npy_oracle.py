#!/usr/bin/env python3
"""numpy as the NPY oracle for C15 (run with python3-vt: the tooling venv has numpy).

  npy_oracle.py gen <seed> <quick|thorough>   -> one line per numpy-written file:  hex(file) \t shape \t float64 bit patterns
  npy_oracle.py load <path>                   -> `OK shape|bits` of numpy.load(path) (what numpy makes of a file sfs wrote)
"""
import sys, io, random
import numpy as np
from numpy.lib import format as npf

def nats(xs): return ",".join(str(int(x)) for x in xs) if len(xs) else "-"
def bits(a):
    b = np.ascontiguousarray(a, dtype='<f8').view('<u8').ravel()
    return ",".join("%016x" % int(x) for x in b) if b.size else "-"

def boundary(kind, width, rng, n):
    vals = []
    for _ in range(n):
        c = rng.randrange(8)
        if kind == 'f':
            pool = [0.0, -0.0, 1.0, -1.5, float('inf'), float('-inf'), float('nan'), 1e-40 if width == 4 else 5e-324, 3.4028235e38 if width == 4 else 1.7976931348623157e308, 1.17549435e-38, 0.1]
            vals.append(rng.choice(pool) if c < 5 else rng.uniform(-1e6, 1e6))
        elif kind == 'u':
            top = 2 ** (8 * width) - 1
            pool = [0, 1, top, top - 1, top // 2, top // 2 + 1, min(top, 2 ** 53), min(top, 2 ** 53 + 1), min(top, 2 ** 53 + 2), min(top, 2 ** 53 + 3), min(top, 2 ** 64 - 1025), min(top, 2 ** 64 - 1024), min(top, 2 ** 63 + 1023), min(top, 2**63 + 1025)]
            vals.append(rng.choice(pool) if c < 6 else rng.randrange(top + 1))
        else:
            lo, hi = -2 ** (8 * width - 1), 2 ** (8 * width - 1) - 1
            pool = [0, 1, -1, lo, hi, lo + 1, hi - 1, max(lo, -2 ** 53 - 1), min(hi, 2 ** 53 + 1), max(lo, -2 ** 53 - 3), min(hi, 2 ** 62 + 255), min(hi, 2 ** 62 + 257), min(hi, 2**63 - 513), min(hi, 2**63 - 511)]
            vals.append(rng.choice(pool) if c < 6 else rng.randrange(lo, hi + 1))
    return vals

def gen(seed, tier):
    rng = random.Random(seed)
    reps = 4 if tier == "thorough" else 1
    for kind, width in [('f', 4), ('f', 8), ('i', 1), ('i', 2), ('i', 4), ('i', 8), ('u', 1), ('u', 2), ('u', 4), ('u', 8)]:
        for order in ['<', '>']:
            for version in [(1, 0), (2, 0), (3, 0)]:
                for rep in range(reps):
                    for shape in [(rng.randrange(1, 7),), (rng.randrange(1, 4), rng.randrange(1, 4)), (2, 1, rng.randrange(1, 4))][: 3 if rep == 0 else 2]:
                        n = int(np.prod(shape))
                        dt = np.dtype(order + kind + str(width))
                        a = np.array(boundary(kind, width, rng, n), dtype=dt).reshape(shape)
                        buf = io.BytesIO()
                        with np.errstate(all='ignore'):
                            npf.write_array(buf, a, version=version)
                            expect = a.astype('<f8')
                        print("%s\t%s\t%s" % (buf.getvalue().hex(), nats(shape), bits(expect)))
    # what numpy writes for inputs sfs must reject
    for a in [np.asfortranarray(np.arange(6, dtype='<f8').reshape(2, 3)), np.array([True, False]), np.arange(3, dtype='<c16'), np.arange(3, dtype='<f2'),
              np.array(3.0), np.array(['ab', 'c']), np.zeros((2,), dtype=[('a', '<f8')])]:
        buf = io.BytesIO(); npf.write_array(buf, a, version=(1, 0))
        print("%s\tREJECT\t-" % buf.getvalue().hex())
    # 1-element Fortran arrays are both C and F contiguous: numpy writes fortran_order False
    buf = io.BytesIO(); npf.write_array(buf, np.asfortranarray(np.arange(3, dtype='<i4').reshape(3, 1)), version=(1, 0))
    print("%s\t%s\t%s" % (buf.getvalue().hex(), "3,1", bits(np.arange(3, dtype='<f8'))))

def load(path):
    a = np.load(path, allow_pickle=False)
    if a.dtype != np.dtype('<f8') or not a.flags['C_CONTIGUOUS']:
        print("NUMPY-OTHER dtype=%s" % a.dtype); return
    print("OK %s|%s" % (nats(a.shape), bits(a)))

if __name__ == "__main__":
    if sys.argv[1] == "gen": gen(int(sys.argv[2]), sys.argv[3] if len(sys.argv) > 3 else "quick")
    elif sys.argv[1] == "load": load(sys.argv[2])
