#!/usr/bin/env python3
"""usage: tools/save_seed.py <id> <property> <patch.diff> <demo file> <needs...> --caught-by C16,C18 [--missed-by C07] [--note text]
Stores a confirmed seeded change under /verif/seeded/<id>/ (patch.diff, the demonstration, meta.json)."""
import sys, os, json, shutil, argparse
ap = argparse.ArgumentParser()
ap.add_argument("id"); ap.add_argument("prop"); ap.add_argument("patch"); ap.add_argument("demo"); ap.add_argument("needs")
ap.add_argument("--what", default=""); ap.add_argument("--caught-by", default=""); ap.add_argument("--missed-by", default=""); ap.add_argument("--note", default="")
ap.add_argument("--confirm", default="")
a = ap.parse_args()
d = os.path.join("/verif/seeded", a.id); os.makedirs(d, exist_ok=True)
shutil.copy(a.patch, os.path.join(d, "patch.diff"))
shutil.copy(a.demo, os.path.join(d, "demo" + os.path.splitext(a.demo)[1]))
meta = {"id": a.id, "breaks_property": a.prop, "what_changed": a.what, "needs_to_manifest": a.needs,
        "source": "written by an independent sub-agent given only the property text and a scratch worktree of /repo",
        "confirmed": a.confirm or "tools/confirm_seed.sh in a scratch worktree: patch applies, cargo test --workspace: 90 passed 0 failed, demonstration fails with the change (rc!=0) and passes without it (rc=0)",
        "ran": ["tools/confirm_seed.sh <worktree> patch.diff demo.sh", "tools/try_seed.sh patch.diff " + " ".join((a.caught_by + "," + a.missed_by).replace(",", " ").split())],
        "detected_by_quick_check": [x for x in a.caught_by.split(",") if x], "not_detected_by": [x for x in a.missed_by.split(",") if x], "note": a.note}
json.dump(meta, open(os.path.join(d, "meta.json"), "w"), indent=1)
print("saved", d)
