#!/bin/bash
# usage: tools/confirm_seed.sh <worktree> <patch.diff> <demo.sh>
# Confirms, in a scratch worktree of /repo, that a seeded change (1) applies and compiles, (2) keeps the unedited
# test suite green, (3) makes the demonstration fail, and (4) that the demonstration passes without the change.
set -u
wt="$1"; patch="$2"; demo="$3"
export CARGO_NET_OFFLINE=true SFS_ALLOW_STDIN=1 RUST_BACKTRACE=0
cd "$wt" || exit 2
git checkout -q -- . ; git apply "$patch" || { echo "CONFIRM: patch does not apply"; exit 2; }
t=$(cargo test --workspace --no-fail-fast --offline 2>&1 | grep -E "^test result" | awk '{p+=$4; f+=$6} END{print p" passed "f" failed"}')
cargo build --offline -q 2>/dev/null
arg="$wt/target/debug/sfs"; [ "${4:-}" = tree ] && arg="$wt"; bash "$demo" "$arg" > /tmp/confirm_with.out 2>&1; with=$?
git checkout -q -- .
cargo build --offline -q 2>/dev/null
bash "$demo" "$arg" > /tmp/confirm_without.out 2>&1; without=$?
echo "CONFIRM: tests with change: $t; demo with change rc=$with; demo without change rc=$without"
[ "$with" -ne 0 ] && [ "$without" -eq 0 ] && echo "$t" | grep -q " 0 failed" && echo "CONFIRMED" || echo "NOT-CONFIRMED"
