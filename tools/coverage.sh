#!/bin/bash
# usage: tools/coverage.sh Cxx [Cyy ...]   (or no argument: all properties)
# Measures which lines of /repo/core/src and /repo/cli/src the correspondence run of each property executes: builds the
# harness and the sfs binary with the nightly toolchain and -C instrument-coverage into /verif/work/cov, runs
# `sfs-harness run <prop> quick 1` (in-process calls and spawned binaries both write profiles), and writes
# /verif/coverage/<prop>.json (per-file line coverage) plus a table on stdout. Not part of the registered checks.
set -u
cd /verif
export CARGO_NET_OFFLINE=true RUSTFLAGS="-C instrument-coverage" RUST_BACKTRACE=0 SFS_ALLOW_STDIN=1
COV=/verif/work/cov; mkdir -p $COV /verif/coverage
SYS=$(rustc +nightly --print sysroot); BIN=$SYS/lib/rustlib/x86_64-unknown-linux-gnu/bin
cargo +nightly build --offline --manifest-path /repo/Cargo.toml -p sfs-cli --target-dir $COV/target-repo 2>&1 | tail -1
cargo +nightly build --offline --manifest-path /verif/harness/Cargo.toml --target-dir $COV/target-harness 2>&1 | tail -1
props="$@"; [ -z "$props" ] && props="C01 C02 C03 C04 C05 C06 C07 C08 C09 C10 C11 C12 C13 C14 C15 C16 C17 C18 C19"
for p in $props; do
  rm -rf $COV/prof; mkdir -p $COV/prof
  LLVM_PROFILE_FILE="$COV/prof/%p-%m.profraw" SFS_BIN=$COV/target-repo/debug/sfs VERIF_WORK=/verif/work \
    $COV/target-harness/debug/sfs-harness run $(echo $p | tr A-Z a-z) quick 1 > $COV/$p.lines 2>/dev/null
  $BIN/llvm-profdata merge -sparse $COV/prof/*.profraw -o $COV/$p.profdata 2>/dev/null
  $BIN/llvm-cov export -format=text -summary-only -instr-profile=$COV/$p.profdata $COV/target-harness/debug/sfs-harness -object $COV/target-repo/debug/sfs 2>/dev/null \
    | python3 -c "
import json,sys
d=json.load(sys.stdin)
rows=[]
for f in d['data'][0]['files']:
    n=f['filename']
    if not n.startswith('/repo/'): continue
    l=f['summary']['lines']; r=f['summary']['regions']
    rows.append({'file':n[len('/repo/'):],'lines':l['count'],'lines_covered':l['covered'],'regions':r['count'],'regions_covered':r['covered']})
tot=sum(x['lines'] for x in rows); cov=sum(x['lines_covered'] for x in rows)
json.dump({'property':'$p','cases':sum(1 for _ in open('$COV/$p.lines')),'files':rows,'lines':tot,'lines_covered':cov},open('/verif/coverage/$p.json','w'),indent=1)
print('$p', 'cases', sum(1 for _ in open('$COV/$p.lines')), 'lines covered in /repo: %d/%d' % (cov,tot))
"
done
rm -rf $COV/prof; rm -f /repo/*.profraw /verif/*.profraw /verif/harness/*.profraw
