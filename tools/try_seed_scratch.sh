#!/bin/bash
# usage: tools/try_seed_scratch.sh <patch.diff> <Cxx> [Cyy ...] — like try_seed.sh, but on a scratch worktree of /repo
# (/tmp/sfs-scratch, created on demand), so that /repo itself and the evidence files stay untouched.
set -u
patch="$(readlink -f "$1")"; shift
wt=/tmp/sfs-scratch
[ -d "$wt" ] || git -C /repo worktree add --detach "$wt" HEAD -q
cd /verif
git -C "$wt" checkout -q -- . ; git -C "$wt" apply "$patch" || { echo "patch does not apply"; exit 2; }
trap 'git -C "$wt" checkout -q -- .' EXIT
for p in "$@"; do
  SFS_REPO="$wt" ./check "$p" --tier quick > /tmp/try_seed_$p.out 2>&1; rc=$?
  echo "== $p rc=$rc: $(grep -E "^(VIOLATION|$p:)" /tmp/try_seed_$p.out | tr '\n' ' ' | cut -c1-400)"
done
