#!/bin/bash
# usage: [SFS_REPO=<scratch copy of /repo>] tools/sweep_seeds.sh [seed-id-glob]
# Regression sweep over seeded/: each change is applied to $SFS_REPO (default /repo), the quick check of the property it
# breaks is run, and the change is undone. Prints one line per seed; exit 1 if a seed is no longer detected.
# Development tool (not a registered check). With `vp run --with-repo` use SFS_REPO=$VP_RUN_REPO so that /repo stays untouched.
set -u
cd "$(dirname "$0")/.."
repo="${SFS_REPO:-/repo}"
pat="${1:-*}"
miss=0
for d in seeded/$pat/; do
  id=$(basename "$d"); prop=$(python3 -c "
import json; m=json.load(open('$d/meta.json')); det=m.get('detected_by_quick_check') or m.get('detected_by') or []
print(m['breaks_property'] if (m['breaks_property'] in det or not det) else det[0])")
  git -C "$repo" checkout -q -- . ; git -C "$repo" apply "$PWD/$d/patch.diff" || { echo "$id: patch does not apply"; miss=1; continue; }
  out=$(SFS_REPO="$repo" ./check "$prop" --tier quick 2>&1); rc=$?
  git -C "$repo" checkout -q -- .
  if [ $rc -eq 1 ] && echo "$out" | grep -q "^VIOLATION property=$prop"; then
    echo "$id: detected by $prop ($(echo "$out" | grep "^VIOLATION" | sed 's/.*replay=//' | head -1 | xargs basename))"
  else echo "$id: NOT DETECTED by $prop (rc=$rc)"; miss=1; fi
done
exit $miss
