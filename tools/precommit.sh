#!/bin/bash
# Sanity before committing /verif: everything setup.sh builds must build, claimed property modules must be sorry-free,
# MANIFEST.json must validate, DESIGN sections are regenerated.
cd /verif/lean
mods=$(ls SfsModel/Props/*.lean | sed 's#/#.#g; s#\.lean$##' | tr '\n' ' ')
out=$(lake build SfsModel sfsmodel $mods 2>&1)
echo "$out" | grep -E "^error|error:" -A5 | head -20
echo "$out" | grep -E "declaration uses .sorry." | sed 's/^/  /' | head
echo "$out" | tail -1
cd /verif
python3 tools/design_sections.py > /dev/null
python3 lib/mkmanifest.py > /dev/null
python3-vt - <<'PY'
import json, jsonschema, glob
jsonschema.validate(json.load(open('/verif/MANIFEST.json')), json.load(open('/root/.vp/MANIFEST.schema.json')))
sch = json.load(open('/root/.vp/EVIDENCE.schema.json'))
bad = 0
for f in sorted(glob.glob('/verif/evidence/*.json')):
    try: jsonschema.validate(json.load(open(f)), sch)
    except Exception as e: bad += 1; print('evidence invalid:', f, str(e)[:100])
print('manifest valid; evidence files invalid:', bad)
PY
git -C /repo status --short | head -3
