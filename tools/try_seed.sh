#!/bin/bash
# usage: tools/try_seed.sh <patch.diff> <Cxx> [Cyy ...]  — apply a seeded change to /repo, run the quick checks, undo it.
set -u
patch="$1"; shift
cd /verif
git -C /repo apply "$patch" || { echo "patch does not apply"; exit 2; }
trap 'git -C /repo checkout -- . ; git -C /repo status --short | head -3' EXIT
for p in "$@"; do
  ./check "$p" --tier quick > /tmp/try_seed_$p.out 2>&1; rc=$?
  echo "== $p rc=$rc: $(grep -E "^(VIOLATION|$p:)" /tmp/try_seed_$p.out | tr '\n' ' ' | cut -c1-400)"
done
