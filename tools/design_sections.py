#!/usr/bin/env python3
"""Regenerates sections 11-15 of DESIGN.md (everything from the marker line on) from lib/props.py, lib/claims.py,
seeded/*/meta.json and known_findings.json plus the hand-written notes below. Run after changing any of those."""
import json, glob, os, re, sys
VERIF = os.path.dirname(os.path.dirname(os.path.abspath(__file__)))
sys.path.insert(0, os.path.join(VERIF, "lib"))
from props import PROPS
from claims import CLAIMS

MARK = "\n---------------------------------------------------------------------------------------------\n\n## 11. As built: per property"

NOTES = {
 "C01": "as planned; the text layer (`print_int`) is `C06.count_prints_as_integer` / `create_stdout_reads_back` (`Props/C06E.lean`): counts below 2^53 are printed at precision 0 as their decimal digits and read back bit for bit.",
 "C02": "as planned. `projectIter_eq` lives with C03. Cohort cases now include targets at the f64-overflow edge of C(t, m) (seed C02-B), and call sets over 5-8 populations (seed C02-C).",
 "C03": "as planned incl. all *ext* theorems: `hyper_compose` / `project_project` and `project_marginalize_comm` (`Props/C03X.lean`: projecting all axes then summing some out = summing them out then projecting the rest). Rejected targets now include, for every axis, a target larger there and smaller elsewhere (seed C03-B). Whole operator rows through `Spectrum::project` at 400-4000 chromosomes (`c03.row`, seed C03-C). `Props/C03B.lean` adds the exact-arithmetic bounds behind the finiteness clause: every coefficient lies in [0, 1] and every projected entry of a non-negative spectrum is at most the input mass.",
 "C04": "as planned; the create/marginalize relation is proved in the form `marginal_is_spectrum` / `marginal_counts` (`Props/C04X.lean`): the marginal of the spectrum of a site list is the spectrum of the sites with the removed populations ignored (with `C06.create_is_spectrum` this is the `create` statement for data complete on all selected samples).",
 "C05": "as planned (`fill_table` is checked by the CLI fill cases of C17/C05 rather than as a theorem).",
 "C06": "plus `Props/C06E.lean` (counts below 2^53 survive the precision-0 text pipe between `create` and `stat` bit for bit) and the `statCli` model of the option surface (header row written before the statistics are computed, one precision for all or one each, otherwise a usage error). Model `Model/Stat.lean` (all 14 statistics, generic scalar, D statistics as (numerator, variance) pairs), specification `Spec/Stat.lean` (genotype-level and published formulas). All planned theorems incl. the three 'published' ones are proved; `linear_stat` is the key lemma. The driver evaluates the *specification* (not the model) for genotype-level cases, so model = spec is also exercised at run time.",
 "C07": "as planned, split into `Props/C07Npy.lean` / `Props/C07Text.lean`. `text_value_roundtrip` is proved for all precisions (the model's magnitude guards at ±400 decimal digits are shown harmless). The *ext* theorem `text_npy_text` (15 significant digits) is proved too (`Props/C07X.lean`, through `nearest_error`: relative error ≤ 2^-53 of the model's decimal → binary64 conversion in the normal range, for precision ≤ 300); the driver still re-checks the clause on the model for every generated case.",
 "C08": "as planned; generator now covers every ordered combination of genotype classes over three selected columns (seed C08-B).",
 "C09": "as planned except `label_perm_transposes` (no separate transposition theorem: the model recomputes ids and the correspondence compares). Names and labels with blanks / punctuation / shared first words since seed C09-C.",
 "C10": "as planned; fault streams now place a ploidy error before/after a skipped sample of the same record (seed C10-B).",
 "C11": "as planned; eight site kinds instead of six (two 'every selected sample uncalled' kinds added after seed C11-A).",
 "C12": "partial, as planned. Proved: `detect_magic`, `prefix_schedule_free`, `pipeline_factors` / `containers_agree` (codecs as a parameter structure) and, without assuming an encoder exists, `pipeline_factors_decoded` / `same_calls_same_output` with a non-vacuity example. Call sets with repeated samples were added (seed C12-B), named-pipe inputs (seed C12-C). Since session 3 the codecs are also *concrete*: `Model/Inflate.lean`, `Model/Bgzf.lean`, `Model/Vcf.lean`, `Model/Container.lean` model DEFLATE, gzip / BGZF framing with CRC-32, VCF text and BCF 2.2 decoding (and plain encoders), `Props/C12B.lean` proves the round trips and `containers_agree_bytes`, and the byte-level correspondence `ct.create` runs in both directions (§17).",
 "C13": "as planned; text output at precision p is now compared too (`c13.viewtext`).",
 "C14": "all planned theorems incl. the *ext* ones: one lemma `sf_fold_weighted` (a mirror-symmetric weighted sum is fold-invariant) carries the twelve fold theorems; `f3_from_f2` / `f4_from_f2` go through `marginalize_eq_spec`. Several hypotheses turned out unnecessary (field semantics x/0 = 0); they are kept because they delimit where the binary64 code returns finite values.",
 "C15": "as planned, split into `C15Write` / `C15Grammar` / `C15Read`. The grammar theorem covers a parameterised spelling family (quote style, four spacing parameters, key order via `List.Perm`, two optional trailing commas). numpy (python3-vt) is used both ways: it loads sfs-written files, and sfs reads numpy-written files with numpy's own `astype('<f8')` as third opinion.",
 "C16": "as planned, split into `C16Damage` / `C16Sound`; plus `overflow_behind_zero_is_none` for defect F21 found by this check.",
 "C17": "partial. Deviation from the plan: the Lean model is total, so instead of an explicit panic outcome per entry point the theorems are *guard theorems* — for each partial operation of the transcribed code (indexing, usize subtraction / multiplication, unwrap) the precondition follows from the validation in front of it, for every shape and input (`Props/C17.lean`). The outcome-class correspondence (`pn.*`) is as planned; the release-profile run was dropped (the debug profile with overflow checks is the stricter one).",
 "C18": "partial, as planned; all 14 theorems over `Model/IoModel.lean` proved, the noodles path explored over enumerated first-chunk lengths and failure offsets through the hook `build_from_bufread`.",
 "C19": "as planned.",
}

SECTION17 = ["---------------------------------------------------------------------------------------------", "",
 "## 17. Session 3: the input containers inside the model, constants regenerated from the source, two more rounds of seeded changes", "",
 "### 17.1 Container layer (more of the system inside the model)", "",
 "Until session 2 the model of `sfs create` started at *genotype results per column*: the bytes of the input were turned into that notation by the harness, and the container codecs appeared in C12's theorems as parameters with a round-trip hypothesis. Now the whole path from input bytes to stdout is an executable Lean function, `createFromBytesC : CreateArgs → bytes → Option CreateOut` (`Model/Container.lean`):", "",
 "| model file | what it models | lines |", "|---|---|---|",
 "| `Model/Inflate.lean` | RFC 1951 DEFLATE decoder (bit reader, canonical Huffman decoding, stored / fixed / dynamic blocks, LZ77 copies), structured after `puff.c`; a stored-block encoder | 190 |",
 "| `Model/Bgzf.lean` | CRC-32, gzip member parsing with FEXTRA / FNAME / FCOMMENT / FHCRC (what flate2's `MultiGzDecoder` consumes in `Format::detect`: `inflate3`), BGZF block framing by `BSIZE` with CRC and ISIZE checks (what noodles-bgzf consumes), a stored-block BGZF encoder | 125 |",
 "| `Model/Vcf.lean` | VCF text: header lines (sample names, `##contig` / FILTER / INFO / FORMAT IDs in order = the BCF dictionaries), record lines (tab fields, POS, FORMAT keys, GT looked up by key per sample, `.` / short sample fields = missing, GT-not-first and unparsable GT = rejected record); BCF 2.x: magic, header text, records by `l_shared` / `l_indiv`, typed integers and descriptors, GT int8 vectors with end-of-vector padding and missing alleles | 300 |",
 "| `Model/Container.lean` | the four containers with these codecs plugged into `createFromBytes`; plain encoders `vcfEncode`, `bcfEncode`, `encodeContainer` (BGZF with any block payload size) | 110 |", "",
 "The decoders are partial on purpose: `none` means *not modelled* (quoted header values, `IDX=`, non-plain fixed fields, GT vectors wider than int8, bytes ≥ 128 in names …), never a guess. They are third-party territory in the implementation (noodles, flate2), so the theorems about them are statements about the *formats as specified*; what ties them to noodles / flate2 is the byte-level correspondence:", "",
 "* `ct.create` (harness → model): the request carries the very bytes handed to `sfs create` on stdin — VCF text, BGZF written by the harness's block writer over *flate2-compressed* (dynamic-Huffman) DEFLATE data with arbitrary cuts and empty blocks, BCF written by noodles' own writer (with INFO and extra FORMAT fields) or by the harness. The Lean driver detects the container on them, inflates, decodes, runs `createCli` on what it decoded and compares with the binary's stdout / exit status / error site; the call set in the harness's notation is carried along and must equal what the model decoded (a difference is reported as a correspondence break without a failing input). Used by C12 (40 files per quick run), C01, C08 (every GT string of the alphabet inside real VCF text and BCF int8 vectors) and C10 (fault streams incl. corrupt lines).",
 "* `sfsmodel --emit` (model → implementation): 36 container files per run are *written by the model's encoders* (`encodeContainer` with block payloads of 1, 3, 5, 7, 19, 64, 100, 1000, 5000, 65280 bytes; three column sets incl. names with blanks; 0-120 records over all genotype classes) and read by the real binary; its outcome must be `createCli` of the call set. This validates the encoders the round-trip theorems speak about against noodles' readers.", "",
 "Theorems (`Props/C12B.lean`): `inflate_stored` (the full inflate model inverts the stored-block encoder and leaves the rest of the stream untouched), `bgzf_block_roundtrip`, `bgzf_roundtrip` (decoded stream = concatenation of the chunk payloads, empty chunks included), `bgzf_partition_free` (two block partitions of one payload decode alike), `gzip_peek` (the three bytes `Format::detect` reads through the gzip decoder are the first payload bytes), `vcf_roundtrip`, `bcf_roundtrip` (for well-formed call sets `WfCallSet`: non-empty ASCII names without tab / newline, alphanumeric contig names, positions ≥ 1, one GT per column; sizes that fit the BCF length fields), `detect_encoded`, and `containers_agree_bytes`: for every well-formed call set, every container and every BGZF block size, `createFromBytesC a (encodeContainer blk … c) = some (createCli a cols recs)` — the C12 statement with nothing left abstract except threads and transports. Compressed DEFLATE blocks are handled by the model and exercised on flate2 output, but the round-trip *theorem* is for the stored encoder (no compressor is modelled).", "",
 "Further: `bgzf_concat_any` (frames around *any* DEFLATE data — what a real compressor writes — decode to the concatenation of what the data inflate to; the hypothesis `inflate cdata = payload` is what the driver evaluates on every flate2-compressed block) and `create_schedule_free_bytes` (with the concrete codecs, `sfs create` over any chunk schedule equals `createFromBytesC` on the whole byte string). `detect_encoded` needs no well-formedness hypothesis (the CRC bound holds for any values below 2^32), `containers_agree_bytes` does (BGZF round trip needs bytes).", "",
 "### 17.2 Constants regenerated from the source on every run (`Props/Tie.lean`)", "",
 "The model is hand-written, but the constants it hard-wires are now *read out of the Rust source on every run*: `tools/extract_consts.py` parses the current /repo (`ALIGN`, `MAGIC`, `START`, `DETECT_PREFIX_LEN`, `BCF_MAGIC_NUMBER`, `GZIP_MAGIC_NUMBER`, the clap defaults of `--precision` / `--threads`) and rewrites `lean/SfsModel/Generated/SourceConsts.lean`; `Props/Tie.lean` proves, per property, that every constant that was located equals the model's value (`C15.source_constants`, `C15.source_alignment`, `C07.source_constants`, `C12.source_constants`, `C18.source_prefix_len`, `C02.source_constants`). A changed alignment, magic number, prefix length or default therefore breaks a proof obligation even when no generated input separates the two values (tried: `DETECT_PREFIX_LEN = 1 << 15` — the correspondence finds no failing input because every BGZF block still fits, the obligation fails, C12 and C18 report `no-failing-input-found` naming `Props/Tie.lean`). A constant that can no longer be located becomes `none`, satisfies the statements vacuously and is printed as a note: renaming a constant is not an alarm. This is the translator-style tie of the brief, applied to the part of the code where it is cheap and exact; the algorithms remain tied by the correspondence.", "",
 "### 17.3 Third round of seeded changes (19, one per property)", "",
 "Sub-agents were told the mechanisms used in rounds 1-2 and asked for different ones. 7 of 19 were caught by the property's own quick check as it stood; 12 were first missed by it (3 of those by every check) and led to generator work — never to a looser comparison:", "",
 "* unique positions: every generated record had its own position, so anything keyed on `CHROM:POS` of the previous record was invisible (C10-C, C11-C) → consecutive records now share positions in C01 / C02 / C10 / C11 / C12, and the in-memory reader reports the record's own site;",
 "* at most four populations (C02-C: a cache key that shifts out leading populations for 5-8) → 5-8 population call sets;",
 "* large sizes reached only through `hypergeometric_pmf` (C03-C: a new row function with a recurrence that underflows) → whole operator rows through `Spectrum::project` at 400-4000 chromosomes;",
 "* labels `A`-`E`, names `s0`… (C09-C: `split_whitespace` in the samples file) → names / labels with blanks, punctuation, shared first words, empty label;",
 "* inputs by path were regular files and chunking went through the hook (C12-C: in-place detection for path inputs only) → named-pipe inputs with a short first write in C12 and C18;",
 "* one statistic per invocation in C14 (C14-C, C06-C: statistics sharing an invocation share a normalisation / a column order) → invocations computing everything applicable at once, in random order;",
 "* small written arrays (C15-C: a block writer that repeats stale values beyond 8192) → 8192 / 8193 / 9261 / 10201 / 16385-value spectra in C15 and C07; aligned-header shapes in C07 (C07-C);",
 "* sampled triploid strings (C08-C: all-missing `././.` taken for missing) → the quick tier covers every triploid string over {., 0, 1};",
 "* degenerate shapes with at least one axis (C17-C: 0-d npy accepted, `Display for Shape` indexes `[0]`) → `()`, `(,)`, `<>` headers x every statistic.", "",
 "### 17.4 Fourth round (19 more, asked for history / state / fault / environment dependence and cooperating edits)", "",
 "7 of 19 were caught by the owning property's quick check as it stood (C01, C02, C03, C04, C05, C10, C19), 4 only by a neighbouring property's check (C06 by C08, C07 by C18 / C15, C11 by C02, C15 by C18), 8 by none (C08, C09, C12, C13, C14, C16, C17, C18). What the misses had in common, and what was added:", "",
 "* *exact sizes*: a memo table one entry short at 128 alleles (C17-D), a block reader that stops at a multiple of 4096 values (C16-E) → size *sweeps* instead of samples: every axis length 2..260 (thorough 600) in C17 and C03, every cohort size 1..140 in C02, damaged files of 4096 k values in C16;",
 "* *history inside one process or object*: a thread-local log-factorial table that is regrown wrongly (C11-D), a cached total that survives `IndexMut` (C14-D), a BCF scratch vector that keeps stale alleles after a narrower record (C08-D) → cohort streams with rising and falling totals in C11, the in-place edit history `monoip` in C14, all-haploid / all-triploid records after diploid ones in C08;",
 "* *environment*: a samples file that must be a regular file (C09-D), `BrokenPipe` mapped to success (C18-F), stdin delivered in pieces (C07-D) → named-pipe samples files, seven rotating error kinds plus closed-pipe runs, split-stdin readers;",
 "* *format corners*: GT's BCF dictionary index ≥ 128 (C12-D), two-digit allele indices in text VCF (C06-D), inputs already on frequency scale (C13-F) → wide headers (126 / 197 / 266 INFO definitions), two-digit multiallelic spellings, frequency-scale inputs.", "",
 "Generalising from the misses rather than patching them one by one, three generic devices were added afterwards: (1) *call histories on one object* — `hist.scs` (a spectrum: sum, any statistic, cell writes through `IndexMut` and through `inner_mut`, `normalize`, clone, fold / marginalize / project returned or replacing the object) and `hist.arr` (an array with 1-6 axes: get, set, axis views and iterators driven past exhaustion, index iterators, axis sums, replacement by an axis sum): after every call the answer must be what the pure model functions return on the object's *current* contents, which is what any cache, memo or lazily updated field can get wrong; they run under C03, C04, C05, C14 and C19; (2) *size sweeps* — every size in a range once instead of a sample (projection sources 1..260, cohorts 1..140, 1-axis statistics 3..260, folds up to 300, one long axis up to 130, npy value counts 1..70 and 2^k ± 1), thorough tiers two to three times further; (3) *format corners in every call set* — long reference alleles, wide headers, two-digit alleles, repeated positions, names with blanks.", "",
 "A development pitfall found on the way (not part of any registered command): trying a seeded change on a scratch copy of the repository while sharing cargo's target directory with /repo leaves the *patched* `sfs` binary in place when switching back — cargo does not re-link an up-to-date binary — so a following run on the unchanged tree reported the previous seed's violation. Scratch sweeps now build into their own target directories and never write evidence (`SFS_REPO`, `lib/runner.py`).", "",
 "`tools/sweep_seeds.sh` re-applies all 88 stored changes to a scratch copy of the repository and runs the owning property's quick check; it is a development tool (run through `vp run --with-repo`), not a registered check.", ""]

def main():
    path = os.path.join(VERIF, "DESIGN.md")
    s = open(path).read()
    if MARK in s: s = s[:s.index(MARK)]
    out = [MARK, "",
      "`./check Cxx` does, for every claimed property: `lake build SfsModel.Props.Cxx sfsmodel`, the axiom audit (`#print axioms` of every listed theorem ⊆ {propext, Classical.choice, Quot.sound}; source scan of the import closure for `sorry`, `admit`, `axiom`, `native_decide`, `bv_decide`, `implemented_by`, `unsafe`, `maxHeartbeats 0`), `cargo build` of /repo and of the harness into `/verif/work`, the harness run (`sfs-harness run cxx <tier> <seed>`), the Lean driver on its output, and writes `evidence/Cxx.json`. Thorough adds `leanchecker` and larger generators. Theorem lists below are the obligations the check counts (from `lib/props.py`).",
      ""]
    for pid in sorted(PROPS):
        cfg = PROPS[pid]; cl = CLAIMS.get(pid, {})
        status = "claimed" if pid in CLAIMS and not cl.get("pending") else "not claimed"
        out.append(f"### {pid} ({status}; {len(cfg['theorems'])} theorems in `Props/{pid}*.lean`)")
        out.append("")
        out.append("Theorems: " + ", ".join(f"`{t}`" for t in cfg["theorems"]) + ".")
        out.append("")
        out.append("Correspondence: " + cfg["rule"])
        if cfg.get("correspondence_only"): out.append("\nDecided by correspondence only: " + "; ".join(cfg["correspondence_only"]) + ".")
        out.append("\nDeviation from §5: " + NOTES.get(pid, "none."))
        out.append("")
    # section 12
    k = json.load(open(os.path.join(VERIF, "known_findings.json")))
    out += ["---------------------------------------------------------------------------------------------", "",
      "## 12. Defects found and repaired during the build", "",
      "All defects F1–F15 and F17 of §6 were repaired by one `fix:` commit each (see `known_findings.json`, `fixed:` entries; the unedited suite passes after each). Found after the design phase:", "",
      "* **F20** (C12, C01, C08; fix b7debed): a wholly missing GT field `.` was a missing genotype in plain VCF with GT as the only FORMAT key, a fatal `invalid String, got None` with further FORMAT fields (`.:3`), and a fatal ploidy error from BCF — same records, different containers, different exit status. Found by the `c12.same` container matrix. Repair: treat a wholly missing GT as a missing genotype in every path.",
      "* **F21** (C17, C16; fix 004eece): declared shape `<0/4294967296/4294967296>`: the checked element count of fix 3fdf991 folded left to right, so the leading zero masked the overflow (0·x = 0) and `Shape::strides` then overflowed (debug: panic in view / fold / stat, release: wrap). My own first repair was incomplete; found by the C16 text shape-edit stream (`io.textread`, `io.specread`, `io.cmd`). Repair: the product of the non-zero lengths must fit as well. The model's `checkedSize` follows the repaired code; `C16.overflow_behind_zero_is_none` and `C17.products_fit` state the repaired behaviour.",
      "* **F22–F33** (C17, known findings, not repaired): twelve further `todo!` sites in noodles-bcf 0.32.0's typed-value decoders (`record/codec/decoder/genotypes.rs` lines 155, 183, 212, 240, 269, 297, 326, 354; `info.rs` lines 138, 153, 169, 211), of the same kind as F18 (`genotypes.rs:428`) and F19 (`decoder.rs:157`): a BCF record carrying a reserved value makes `sfs create` panic inside the dependency. They were enumerated by reading the dependency after the mutation stream hit `genotypes.rs:155`; each is listed in `known_findings.json` by file and line, the C17 check prints `KNOWN-FINDING` for a hit and still reports a panic at any other location. Not repairable by a small patch to sfs (needs a newer noodles; nothing can be fetched).",
      ""]
    out += ["Known findings currently listed: " + ", ".join(f"{f['id']}" for f in k.get("findings", [])) + ".", ""]
    # section 13
    out += ["---------------------------------------------------------------------------------------------", "",
      "## 13. False alarms and corrections of the machinery", "",
      "Alarms that were the machinery's fault, found on the unchanged tree while building, and what was done:", "",
      "* Model, f32 → f64 widening (`Model/F64.lean`): the rebias was written `e - 127 + 1023` over `Nat` (truncated subtraction, wrong for every binary32 value below 1.0). Found while stating `C15.decode_f4` before any run; corrected to `e + 896`; the theorem `decode_f4` (exact for normal, subnormal, zero, inf; NaN ↦ NaN) now pins it.",
      "* Driver, C17 `pn.any`: it first demanded empty stdout for every failing run; `sfs stat -H -s f3` on a 2-axis spectrum prints the header row and then fails with the dimension error. C17 does not forbid that (C16's no-output clause is about rejected *inputs*), so the demand was dropped: a failing run needs a non-zero status and a diagnostic on stderr.",
      "* Driver op names `io.cli`, `st.mem`, `st.cli` collided with the generic `<prop>.cli` / `<prop>.mem` dispatch and were answered `BAD-LINE` (which the runner treats as a violation); renamed `io.cmd`, `st.calc`, `st.cmd`.",
      "* Lemma files of different proof sessions defined the same global names; importing two of them together failed the build (an obligation that no longer checks). Renamed (`gEntry_*`, `npy_joinNats_*`, `spec_joinNats_chars`, `marg_list_eq_map_getD`, `fold_list_range_sum`, `cons_*`); helper lemmas now carry a per-file prefix.",
      "* C07 literal bound (F16 of §6): demanding the literal 'within half a unit of the p-th decimal' of the *re-read double* would alarm on every correct reader (`literal_bound_witness`); the criterion decided is the proved one (printed decimal within half a unit of the exact value; re-read double = nearest binary64 of the printed decimal).",
      "* Earlier sessions: see the commit log of /verif for the C12 `.`-genotype alarm that turned out to be the genuine defect F20.", ""]
    # section 14
    out += ["---------------------------------------------------------------------------------------------", "",
      "## 14. Seeded changes: which check catches what", "",
      "Each change below was written by an independent sub-agent that saw only the property text and a scratch worktree of /repo, compiles, passes the 90 existing tests, and comes with a demonstration that fails with it and passes without it; each was re-confirmed in a scratch worktree (`tools/confirm_seed.sh`) and then applied to /repo, checked (`tools/try_seed.sh`) and reverted. `seeded/<id>/` holds `patch.diff`, the demonstration and `meta.json`. 'first missed' = the property's own quick check did not see it at first; the generator was strengthened (never the comparison loosened) until it did.", "",
      "| seeded change | breaks | needs | caught by (quick) | note |", "|---|---|---|---|---|"]
    for d in sorted(glob.glob(os.path.join(VERIF, "seeded", "*"))):
        mp = os.path.join(d, "meta.json")
        if not os.path.exists(mp): continue
        m = json.load(open(mp))
        det = m.get("detected_by_quick_check") or m.get("detected_by") or []
        needs = (m.get("needs_to_manifest") or m.get("needs") or "")
        needs = needs if len(needs) < 230 else needs[:227] + "…"
        note = (m.get("note") or "")
        note = note if len(note) < 260 else note[:257] + "…"
        out.append(f"| {os.path.basename(d)} | {m.get('breaks_property') or m.get('property')} | {needs.replace('|', '/')} | {', '.join(det)} | {note.replace('|', '/')} |")
    out += ["", "Every seeded change is reported with a concrete replay file (a failing correspondence line: the input on which implementation and model — hence, by the refinement theorems, implementation and specification — differ). None needed the `no-failing-input-found` path.", ""]
    # section 15
    out += ["---------------------------------------------------------------------------------------------", "",
      "## 15. Trusted base as audited", "",
      "* Lean 4.33.0 kernel. Every property theorem is audited on every run with `#print axioms`; all depend on a subset of {`propext`, `Classical.choice`, `Quot.sound`}. No `native_decide`, `bv_decide`, own axioms, `sorry`, `implemented_by`, `unsafe` or `maxHeartbeats 0` in the import closure of any Props file or of the driver (scanned on every run). `decide +kernel` is used for closed finite facts (non-vacuity examples, 2^1024 < 10^309, two instances n = 2^53) — kernel evaluation, no extra axiom. Thorough runs re-check the property module with `leanchecker`.",
      "* Mathlib v4.33.0 lemmas (kernel-checked); model files import core Lean only, so the driver is a compiled `lean_exe`.",
      "* The hand-written model as a faithful transcription of the Rust code — validated on every run by the correspondence check and bounded by its generators (rules and measured tag histograms in the evidence files). Modelled, not verified: noodles (VCF/BCF/BGZF), flate2, clap, nom's combinator semantics (re-stated in `Model/Npy.lean`), indexmap insertion order (`indexMapOfList`), `core::fmt` `{:.p}` (`fmtFixed`) and `f64::from_str` (`parseF64`) — both compared value by value on every C07 run —, `std::io` default methods (`IoModel`), glibc `exp`/`ln`/`sqrt` and IEEE-754 arithmetic (compared within 2^-30 relative in exact rationals, never proved), numpy as the npy oracle.",
      "* The Rust harness (`harness/`), the driver's protocol decoding (`Driver/*.lean`), the python orchestration (`lib/runner.py`), and the `verif` hooks in /repo (commit 20240c9: three add-only wrappers).",
      "* Theorems about scalars are over any field of characteristic zero (C06's published estimators: any linearly ordered field) with Lean's convention x/0 = 0; where the binary64 code would return NaN / ±inf the theorems say nothing and the correspondence compares classes.", ""]
    # section 16: coverage of the correspondence runs
    covs = sorted(glob.glob(os.path.join(VERIF, "coverage", "C*.json")))
    if covs:
        out += ["---------------------------------------------------------------------------------------------", "",
          "## 16. How much of the code the correspondence runs execute", "",
          "`tools/coverage.sh` builds the harness and the `sfs` binary with `-C instrument-coverage` (nightly toolchain, offline) and runs each property's quick generator once; in-process calls and every spawned `sfs` process write profiles, which are merged per property (`coverage/Cxx.json`). This is not part of the registered checks; it measures generator quality: a transcribed function the correspondence never executes would be validated by nothing.", "",
          "| property | cases | lines of /repo executed |", "|---|---|---|"]
        files = {}
        for f in covs:
            d = json.load(open(f))
            out.append(f"| {d['property']} | {d['cases']} | {d['lines_covered']} / {d['lines']} |")
            for x in d["files"]:
                e = files.setdefault(x["file"], {"lines": x["lines"], "best": 0, "by": ""})
                if x["lines_covered"] > e["best"]: e["best"] = x["lines_covered"]; e["by"] = d["property"]
        out += ["", "Per source file, the best single property run (lines executed / lines with code):", "", "| file | lines | best run |", "|---|---|---|"]
        for k, v in sorted(files.items()):
            out.append(f"| {k} | {v['best']} / {v['lines']} ({100 * v['best'] // max(1, v['lines'])}%) | {v['by']} |")
        out += ["", "Not executed by any run: logging set-up and `--help` paths in `cli/src/main.rs`, `Display`/`Debug` impls and error-message formatting, the `x < 0.5` branch of `ln_gamma` (unreachable from the callers), `FayWu` (dead code), file-path variants of readers that the harness drives through stdin.", ""]
    out += SECTION17
    open(path, "w").write(s + "\n".join(out) + "\n")
    print("DESIGN.md sections 11-15 regenerated")

if __name__ == "__main__":
    main()
