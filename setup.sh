#!/bin/bash
# Build the framework from files on disk only (offline): Lean model, theorems, driver; /repo and the harness.
set -e
cd "$(dirname "$0")"
export CARGO_NET_OFFLINE=true
mkdir -p work evidence
# the theorem modules the registered checks use (lib/props.py); work-in-progress files under Props/ are not part of the setup
mods=$(python3 -c "
import sys; sys.path.insert(0, 'lib')
from props import PROPS
print(' '.join(sorted({m for p, c in PROPS.items() for m in c.get('modules', ['SfsModel.Props.' + p])})))")
( cd lean && lake build SfsModel sfsmodel $mods )
cargo build --offline --manifest-path ${SFS_REPO:-/repo}/Cargo.toml -p sfs-cli --target-dir work/target-repo
[ -f harness/Cargo.lock ] || cp ${SFS_REPO:-/repo}/Cargo.lock harness/Cargo.lock
cargo build --offline --manifest-path harness/Cargo.toml --target-dir work/target-harness
echo "setup done"
