#!/bin/bash
# Build the framework from files on disk only (offline): Lean model, theorems, driver; /repo and the harness.
set -e
cd "$(dirname "$0")"
export CARGO_NET_OFFLINE=true
mkdir -p work evidence
( cd lean && lake build SfsModel sfsmodel $(ls SfsModel/Props/*.lean | sed 's#/#.#g; s#\.lean$##' | tr '\n' ' ') )
cargo build --offline --manifest-path ${SFS_REPO:-/repo}/Cargo.toml -p sfs-cli --target-dir work/target-repo
[ -f harness/Cargo.lock ] || cp ${SFS_REPO:-/repo}/Cargo.lock harness/Cargo.lock
cargo build --offline --manifest-path harness/Cargo.toml --target-dir work/target-harness
echo "setup done"
